package gencode

import (
	"fmt"
	"math"
	"reflect"
	"sort"

	"google.golang.org/protobuf/proto"
	"google.golang.org/protobuf/reflect/protoreflect"
	"google.golang.org/protobuf/types/dynamicpb"
	"pgregory.net/rapid"

	"verif/harness/internal/ev"
	"verif/harness/internal/refwire"
	"verif/harness/internal/wiregen"
)

// exclusion tokens of the current property (a test process runs one property): generator shapes that a
// listed known finding asks to avoid; every avoided choice is counted.
var (
	curRec *ev.Recorder
)

func useRecorder(r *ev.Recorder) { curRec = r }

func excluding(token string) bool {
	if curRec != nil && curRec.Excluding(token) {
		curRec.Excluded(token)
		return true
	}
	return false
}

// skipExtension applies the extension-related exclusions for a message of the given runtime.
func skipExtension(runtime string, xd protoreflect.FieldDescriptor) bool {
	if !xd.IsExtension() {
		return false
	}
	if xd.Message() == nil && (runtime == "gogo" || runtime == "legacy") && excluding("scalar-extension-on-v1-runtime") {
		return true
	}
	scoped := true // declared in the extend block of a top-level message?
	if p, ok := xd.Parent().(protoreflect.MessageDescriptor); ok {
		if _, top := p.Parent().(protoreflect.FileDescriptor); top {
			scoped = false
		}
	}
	if scoped && excluding("extension-declared-outside-a-top-level-message") {
		return true
	}
	return false
}

var (
	refMarshal   = proto.MarshalOptions{Deterministic: true, AllowPartial: true}
	refUnmarshal = func() proto.UnmarshalOptions { return proto.UnmarshalOptions{Resolver: dynTypes, AllowPartial: true} }
)

// canon turns a generated dynamic message into its canonical form: the reference encoding and the
// message the reference decodes from it (which is what a replay file can reproduce exactly).
func canon(dyn *dynamicpb.Message) (*dynamicpb.Message, []byte) {
	b, err := refMarshal.Marshal(dyn)
	if err != nil {
		panic("harness: reference cannot marshal a generated value: " + err.Error())
	}
	return decodeRef(dyn.Descriptor(), b), b
}

func decodeRef(md protoreflect.MessageDescriptor, b []byte) *dynamicpb.Message {
	out := dynamicpb.NewMessage(md)
	if err := refUnmarshal().Unmarshal(b, out); err != nil {
		panic("harness: reference cannot decode its own encoding: " + err.Error())
	}
	return out
}

func extensionsOf(md protoreflect.MessageDescriptor) []protoreflect.ExtensionType {
	loadCorpus()
	out := append([]protoreflect.ExtensionType{}, extsByMessage[md.FullName()]...)
	sort.Slice(out, func(i, j int) bool { return out[i].TypeDescriptor().Number() < out[j].TypeDescriptor().Number() })
	return out
}

// ---- boundary values per kind ----

func boundaryScalars(k protoreflect.Kind) []protoreflect.Value {
	V := protoreflect.ValueOf
	switch k {
	case protoreflect.BoolKind:
		return []protoreflect.Value{V(false), V(true)}
	case protoreflect.Int32Kind, protoreflect.Sint32Kind, protoreflect.Sfixed32Kind:
		return []protoreflect.Value{V(int32(0)), V(int32(1)), V(int32(-1)), V(int32(127)), V(int32(128)), V(int32(-129)), V(int32(math.MaxInt32)), V(int32(math.MinInt32)), V(int32(1 << 21))}
	case protoreflect.Int64Kind, protoreflect.Sint64Kind, protoreflect.Sfixed64Kind:
		return []protoreflect.Value{V(int64(0)), V(int64(1)), V(int64(-1)), V(int64(1) << 35), V(int64(math.MaxInt64)), V(int64(math.MinInt64)), V(int64(-1) << 31), V(int64(16383)), V(int64(16384))}
	case protoreflect.Uint32Kind, protoreflect.Fixed32Kind:
		return []protoreflect.Value{V(uint32(0)), V(uint32(1)), V(uint32(127)), V(uint32(128)), V(uint32(math.MaxUint32)), V(uint32(1 << 31)), V(uint32(1 << 28))}
	case protoreflect.Uint64Kind, protoreflect.Fixed64Kind:
		return []protoreflect.Value{V(uint64(0)), V(uint64(1)), V(uint64(1) << 63), V(uint64(math.MaxUint64)), V(uint64(1) << 56), V(uint64(1)<<49 - 1), V(uint64(300))}
	case protoreflect.FloatKind:
		return []protoreflect.Value{V(float32(0)), V(float32(math.Copysign(0, -1))), V(float32(1.5)), V(float32(-2.25)), V(float32(math.Inf(1))), V(float32(math.MaxFloat32)), V(math.Float32frombits(1)), V(float32(math.NaN()))}
	case protoreflect.DoubleKind:
		return []protoreflect.Value{V(float64(0)), V(math.Copysign(0, -1)), V(1.5), V(-2.25), V(math.Inf(-1)), V(math.MaxFloat64), V(math.Float64frombits(1)), V(math.NaN())}
	case protoreflect.StringKind:
		return []protoreflect.Value{V(""), V("a"), V("héllo wörld ✓"), V(string(repeat('x', 127))), V(string(repeat('y', 128))), V(string(repeat('z', 300)))}
	case protoreflect.BytesKind:
		return []protoreflect.Value{V([]byte{}), V([]byte{0}), V([]byte{0xff, 0x00, 0x80}), V(repeat(0xab, 127)), V(repeat(0xcd, 128)), V(repeat(0xef, 16384))}
	case protoreflect.EnumKind:
		return []protoreflect.Value{V(protoreflect.EnumNumber(0)), V(protoreflect.EnumNumber(1)), V(protoreflect.EnumNumber(2)), V(protoreflect.EnumNumber(-1)), V(protoreflect.EnumNumber(1000))}
	}
	return nil
}

// boundaryFor restricts enum values of closed (proto2) enums to declared numbers: an undeclared number
// is moved to the unknown fields by a conforming reader, which is C07's subject, not this generator's.
func boundaryFor(fd protoreflect.FieldDescriptor) []protoreflect.Value {
	vs := boundaryScalars(fd.Kind())
	if fd.Kind() == protoreflect.EnumKind && fd.Enum().IsClosed() {
		return vs[:3]
	}
	return vs
}

func repeat(b byte, n int) []byte {
	out := make([]byte, n)
	for i := range out {
		out[i] = b
	}
	return out
}

// fillRequired sets every unset required field (recursively for required message fields) to a default.
func fillRequired(m *dynamicpb.Message, depth int) {
	fs := m.Descriptor().Fields()
	for i := 0; i < fs.Len(); i++ {
		fd := fs.Get(i)
		if fd.Cardinality() != protoreflect.Required || m.Has(fd) {
			continue
		}
		if fd.Message() != nil {
			sub := dynamicpb.NewMessage(fd.Message())
			if depth > 0 {
				fillRequired(sub, depth-1)
			}
			m.Set(fd, protoreflect.ValueOfMessage(sub))
		} else {
			m.Set(fd, boundaryScalars(fd.Kind())[1])
		}
	}
}

// sweepValues: the systematic part - every field set alone to each boundary value of its kind, every
// field left at default, empty string/bytes, empty nested message in a field / list / map / oneof.
func sweepValues(md protoreflect.MessageDescriptor, runtime string) []*dynamicpb.Message {
	var out []*dynamicpb.Message
	add := func(m *dynamicpb.Message) {
		fillRequired(m, 3)
		out = append(out, m)
	}
	add(dynamicpb.NewMessage(md))
	var fds []protoreflect.FieldDescriptor
	for i := 0; i < md.Fields().Len(); i++ {
		fds = append(fds, md.Fields().Get(i))
	}
	for _, xt := range extensionsOf(md) {
		if !skipExtension(runtime, xt.TypeDescriptor()) {
			fds = append(fds, xt.TypeDescriptor())
		}
	}
	for _, fd := range fds {
		switch {
		case fd.IsMap():
			kvs := boundaryScalars(fd.MapKey().Kind())
			if fd.MapKey().Kind() == protoreflect.BoolKind {
				kvs = kvs[:2]
			}
			for i, kv := range kvs {
				m := dynamicpb.NewMessage(md)
				mp := m.NewField(fd).Map()
				if fd.MapValue().Message() != nil {
					sub := dynamicpb.NewMessage(fd.MapValue().Message())
					if i%2 == 1 {
						fillOne(sub)
					}
					mp.Set(kv.MapKey(), protoreflect.ValueOfMessage(sub))
				} else {
					vs := boundaryFor(fd.MapValue())
					mp.Set(kv.MapKey(), vs[i%len(vs)])
				}
				m.Set(fd, protoreflect.ValueOfMap(mp))
				add(m)
			}
			if vm := fd.MapValue().Message(); vm != nil { // message values of an exact size around the length-prefix limits
				for _, target := range []int{127, 128, 129, 16383, 16384, 16385} {
					if child := sizedChild(vm, target); child != nil {
						m := dynamicpb.NewMessage(md)
						mp := m.NewField(fd).Map()
						mp.Set(kvs[1%len(kvs)].MapKey(), protoreflect.ValueOfMessage(child))
						m.Set(fd, protoreflect.ValueOfMap(mp))
						add(m)
					}
				}
			}
			if fd.MapValue().Message() == nil { // every value boundary under one key
				for _, vv := range boundaryFor(fd.MapValue()) {
					m := dynamicpb.NewMessage(md)
					mp := m.NewField(fd).Map()
					mp.Set(kvs[1].MapKey(), vv)
					m.Set(fd, protoreflect.ValueOfMap(mp))
					add(m)
				}
			}
		case fd.Message() != nil:
			mk := func(fill int) protoreflect.Value {
				sub := dynamicpb.NewMessage(fd.Message())
				if fill > 0 {
					fillOne(sub)
				}
				fillRequired(sub, 2)
				return protoreflect.ValueOfMessage(sub)
			}
			// children of an exact encoded size around the 1- and 2-byte length-prefix limits (padded with one unknown
			// length-delimited field, which every message type can carry)
			for _, target := range []int{127, 128, 129, 16383, 16384, 16385} {
				child := sizedChild(fd.Message(), target)
				if child == nil {
					continue
				}
				m := dynamicpb.NewMessage(md)
				switch {
				case fd.IsList():
					l := m.NewField(fd).List()
					l.Append(protoreflect.ValueOfMessage(sizedChild(fd.Message(), 127)))
					l.Append(protoreflect.ValueOfMessage(child))
					l.Append(mk(0))
					m.Set(fd, protoreflect.ValueOfList(l))
				default:
					m.Set(fd, protoreflect.ValueOfMessage(child))
				}
				add(m)
			}
			if fd.IsList() {
				for _, shape := range [][]int{{0}, {1}, {0, 1}, {1, 0, 1}, {0, 0}} {
					m := dynamicpb.NewMessage(md)
					l := m.NewField(fd).List()
					for _, s := range shape {
						l.Append(mk(s))
					}
					m.Set(fd, protoreflect.ValueOfList(l))
					add(m)
				}
			} else {
				for fill := 0; fill < 2; fill++ {
					m := dynamicpb.NewMessage(md)
					m.Set(fd, mk(fill))
					add(m)
				}
			}
		case fd.IsList():
			vs := boundaryFor(fd)
			for i, v := range vs {
				m := dynamicpb.NewMessage(md)
				l := m.NewField(fd).List()
				l.Append(v)
				if i%2 == 1 {
					l.Append(vs[(i+1)%len(vs)])
					l.Append(vs[(i+3)%len(vs)])
				}
				m.Set(fd, protoreflect.ValueOfList(l))
				add(m)
			}
			m := dynamicpb.NewMessage(md)
			l := m.NewField(fd).List()
			for _, v := range vs {
				l.Append(v)
			}
			m.Set(fd, protoreflect.ValueOfList(l))
			add(m)
			// long lists: element counts at which the payload of a packed run of 1-, 2-, 4-, 5-, 8- or 10-byte
			// elements crosses the 1-byte (128) and 2-byte (16384) length-prefix limits, every element as wide
			// as the kind allows / one byte wide
			if fd.Kind() != protoreflect.StringKind && fd.Kind() != protoreflect.BytesKind {
				wide, narrow := widestScalar(fd), vs[1%len(vs)]
				for _, n := range listSweepLens {
					for _, v := range []protoreflect.Value{wide, narrow} {
						m := dynamicpb.NewMessage(md)
						l := m.NewField(fd).List()
						for i := 0; i < n; i++ {
							l.Append(v)
						}
						m.Set(fd, protoreflect.ValueOfList(l))
						add(m)
					}
				}
			}
		default:
			for _, v := range boundaryFor(fd) {
				if isNegZero(fd, v) && !fd.HasPresence() && excluding("negative-zero-in-implicit-presence-float") {
					continue
				}
				m := dynamicpb.NewMessage(md)
				m.Set(fd, v)
				add(m)
			}
		}
	}
	return out
}

// sizedChild returns a message of type md whose encoding is exactly size bytes: its required fields plus one
// unknown length-delimited field (number outside the schema) as padding.  nil if size is too small.
func sizedChild(md protoreflect.MessageDescriptor, size int) *dynamicpb.Message {
	m := dynamicpb.NewMessage(md)
	fillRequired(m, 2)
	base, err := refMarshal.Marshal(m)
	if err != nil {
		return nil
	}
	num := 1000003
	for md.Fields().ByNumber(protoreflect.FieldNumber(num)) != nil || inExtensionRange(md, num) {
		num++
	}
	key := refwire.AppendKey(nil, num, refwire.WTLen)
	for l := size - len(base) - len(key) - 1; l >= 0 && l >= size-len(base)-len(key)-4; l-- {
		pad := refwire.AppendLen(append([]byte{}, key...), repeat('u', l))
		if len(base)+len(pad) == size {
			m.SetUnknown(pad)
			return m
		}
	}
	return nil
}

func inExtensionRange(md protoreflect.MessageDescriptor, num int) bool {
	rs := md.ExtensionRanges()
	for i := 0; i < rs.Len(); i++ {
		if protoreflect.FieldNumber(num) >= rs.Get(i)[0] && protoreflect.FieldNumber(num) < rs.Get(i)[1] {
			return true
		}
	}
	return false
}

var listSweepLens = []int{12, 13, 15, 16, 17, 25, 26, 31, 32, 33, 63, 64, 65, 127, 128, 129, 1638, 1639, 2047, 2048, 2049, 3276, 3277, 4095, 4096, 4097, 8191, 8192, 8193, 16383, 16384, 16385}

// widestScalar: a value of fd's kind with the longest encoding (10-byte varint for the signed varint kinds).
func widestScalar(fd protoreflect.FieldDescriptor) protoreflect.Value {
	V := protoreflect.ValueOf
	switch fd.Kind() {
	case protoreflect.Int32Kind:
		return V(int32(-1))
	case protoreflect.Sint32Kind:
		return V(int32(math.MinInt32))
	case protoreflect.Int64Kind:
		return V(int64(-1))
	case protoreflect.Sint64Kind:
		return V(int64(math.MinInt64))
	case protoreflect.Uint32Kind:
		return V(uint32(math.MaxUint32))
	case protoreflect.Uint64Kind:
		return V(uint64(math.MaxUint64))
	case protoreflect.EnumKind:
		vs := boundaryFor(fd)
		return vs[len(vs)-1]
	}
	vs := boundaryFor(fd)
	return vs[len(vs)-1]
}

// fillOne sets the first scalar field of a message (used to make "non-empty" children).
func fillOne(m *dynamicpb.Message) {
	fs := m.Descriptor().Fields()
	for i := 0; i < fs.Len(); i++ {
		fd := fs.Get(i)
		if fd.Message() == nil && !fd.IsList() && !fd.IsMap() {
			vs := boundaryScalars(fd.Kind())
			m.Set(fd, vs[len(vs)/2])
			return
		}
	}
}

// ---- random values ----

func genScalar(t *rapid.T, fd protoreflect.FieldDescriptor) protoreflect.Value {
	V := protoreflect.ValueOf
	if rapid.IntRange(0, 3).Draw(t, "boundary") == 0 {
		return rapid.SampledFrom(boundaryFor(fd)).Draw(t, "bv")
	}
	u := wiregen.U64().Draw(t, "u")
	switch fd.Kind() {
	case protoreflect.BoolKind:
		return V(u&1 == 1)
	case protoreflect.Int32Kind, protoreflect.Sint32Kind, protoreflect.Sfixed32Kind:
		return V(int32(uint32(u)))
	case protoreflect.Int64Kind, protoreflect.Sint64Kind, protoreflect.Sfixed64Kind:
		return V(int64(u))
	case protoreflect.Uint32Kind, protoreflect.Fixed32Kind:
		return V(uint32(u))
	case protoreflect.Uint64Kind, protoreflect.Fixed64Kind:
		return V(u)
	case protoreflect.FloatKind:
		return V(math.Float32frombits(uint32(u)))
	case protoreflect.DoubleKind:
		return V(math.Float64frombits(u))
	case protoreflect.StringKind:
		return V(string(wiregen.UTF8().Draw(t, "s")))
	case protoreflect.BytesKind:
		return V(wiregen.Bytes(false).Draw(t, "b"))
	case protoreflect.EnumKind:
		if fd.Enum().IsClosed() {
			return V(protoreflect.EnumNumber(rapid.IntRange(0, 2).Draw(t, "e")))
		}
		return V(protoreflect.EnumNumber(rapid.SampledFrom([]int32{0, 1, 2, 2, 1, -1, 7, math.MaxInt32, math.MinInt32}).Draw(t, "e")))
	}
	panic("genScalar: " + fd.Kind().String())
}

type genOpts struct {
	requiredProb int    // out of 10: probability that a required field is set
	maxMap       int    // maximum number of map entries
	noExt        bool   // do not populate extensions
	runtime      string // runtime of the concrete type the value is generated for (drives exclusions)
	jsonSafe     bool   // finite floats and declared enum values only (the JSON mapping cannot round-trip the rest on every runtime)
}

func jsonSafeValue(fd protoreflect.FieldDescriptor, v protoreflect.Value) protoreflect.Value {
	switch fd.Kind() {
	case protoreflect.FloatKind:
		if f := v.Float(); math.IsNaN(f) || math.IsInf(f, 0) {
			return protoreflect.ValueOfFloat32(1.5)
		}
	case protoreflect.DoubleKind:
		if f := v.Float(); math.IsNaN(f) || math.IsInf(f, 0) {
			return protoreflect.ValueOfFloat64(-2.25)
		}
	case protoreflect.EnumKind:
		if vs := fd.Enum().Values(); vs.ByNumber(v.Enum()) == nil { // an undeclared number has no JSON name
			return protoreflect.ValueOfEnum(vs.Get(vs.Len() - 1).Number())
		}
	}
	return v
}

func isNegZero(fd protoreflect.FieldDescriptor, v protoreflect.Value) bool {
	switch fd.Kind() {
	case protoreflect.FloatKind, protoreflect.DoubleKind:
		return v.Float() == 0 && math.Signbit(v.Float())
	}
	return false
}

func genDyn(t *rapid.T, md protoreflect.MessageDescriptor, depth int, o genOpts) *dynamicpb.Message {
	m := dynamicpb.NewMessage(md)
	var fds []protoreflect.FieldDescriptor
	for i := 0; i < md.Fields().Len(); i++ {
		fds = append(fds, md.Fields().Get(i))
	}
	if !o.noExt {
		for _, xt := range extensionsOf(md) {
			if !skipExtension(o.runtime, xt.TypeDescriptor()) {
				fds = append(fds, xt.TypeDescriptor())
			}
		}
	}
	chosen := map[protoreflect.FullName]bool{}
	for _, fd := range fds {
		if od := fd.ContainingOneof(); od != nil && !od.IsSynthetic() {
			if chosen[od.FullName()] {
				continue
			}
			// pick at most one member of a real oneof
			if rapid.IntRange(0, od.Fields().Len()).Draw(t, "oneofpick") != 0 {
				continue
			}
			chosen[od.FullName()] = true
		} else if fd.Cardinality() == protoreflect.Required {
			if rapid.IntRange(0, 9).Draw(t, "reqset") >= o.requiredProb {
				continue
			}
		} else if rapid.IntRange(0, 9).Draw(t, "present") >= 6 {
			continue
		}
		switch {
		case fd.IsMap():
			mp := m.NewField(fd).Map()
			n := rapid.IntRange(0, o.maxMap).Draw(t, "nmap")
			for i := 0; i < n; i++ {
				k := genScalar(t, fd.MapKey()).MapKey()
				if fd.MapValue().Message() != nil {
					mp.Set(k, protoreflect.ValueOfMessage(genChild(t, fd.MapValue().Message(), depth, o)))
				} else if o.jsonSafe {
					mp.Set(k, jsonSafeValue(fd.MapValue(), genScalar(t, fd.MapValue())))
				} else {
					mp.Set(k, genScalar(t, fd.MapValue()))
				}
			}
			m.Set(fd, protoreflect.ValueOfMap(mp))
		case fd.IsList():
			l := m.NewField(fd).List()
			n := rapid.SampledFrom([]int{0, 1, 1, 2, 2, 3, 6}).Draw(t, "nlist")
			if fd.Message() == nil && rapid.IntRange(0, 7).Draw(t, "longlist") == 0 {
				// a long list of a few drawn values: the payload of a packed run crosses a length-prefix limit
				n = rapid.SampledFrom([]int{13, 16, 17, 26, 32, 33, 64, 65, 128, 129, 200}).Draw(t, "nlong")
				if fd.Kind() != protoreflect.StringKind && fd.Kind() != protoreflect.BytesKind && rapid.IntRange(0, 5).Draw(t, "verylong") == 0 {
					n = rapid.SampledFrom([]int{1639, 2048, 2049, 3277, 4096, 4097, 16384}).Draw(t, "nverylong")
				}
				base := []protoreflect.Value{genScalar(t, fd), genScalar(t, fd), genScalar(t, fd)}
				if rapid.Bool().Draw(t, "allwide") {
					base = []protoreflect.Value{widestScalar(fd)}
				}
				for i := 0; i < n; i++ {
					v := base[i%len(base)]
					if o.jsonSafe {
						v = jsonSafeValue(fd, v)
					}
					l.Append(v)
				}
				n = 0
			}
			for i := 0; i < n; i++ {
				if fd.Message() != nil {
					l.Append(protoreflect.ValueOfMessage(genChild(t, fd.Message(), depth, o)))
				} else if o.jsonSafe {
					l.Append(jsonSafeValue(fd, genScalar(t, fd)))
				} else {
					l.Append(genScalar(t, fd))
				}
			}
			m.Set(fd, protoreflect.ValueOfList(l))
		case fd.Message() != nil:
			m.Set(fd, protoreflect.ValueOfMessage(genChild(t, fd.Message(), depth, o)))
		default:
			v := genScalar(t, fd)
			if o.jsonSafe {
				v = jsonSafeValue(fd, v)
			}
			if isNegZero(fd, v) && !fd.HasPresence() && excluding("negative-zero-in-implicit-presence-float") {
				continue
			}
			m.Set(fd, v)
		}
	}
	return m
}

func genChild(t *rapid.T, md protoreflect.MessageDescriptor, depth int, o genOpts) *dynamicpb.Message {
	if o.jsonSafe {
		// the JSON mapping of Timestamp / Duration only exists for values inside their documented ranges
		switch md.FullName() {
		case "google.protobuf.Timestamp":
			sub := dynamicpb.NewMessage(md)
			sub.Set(md.Fields().ByNumber(1), protoreflect.ValueOfInt64(rapid.Int64Range(-62135596800, 253402300799).Draw(t, "ts")))
			sub.Set(md.Fields().ByNumber(2), protoreflect.ValueOfInt32(rapid.Int32Range(0, 999999999).Draw(t, "tn")))
			return sub
		case "google.protobuf.Duration":
			sub := dynamicpb.NewMessage(md)
			sec := rapid.Int64Range(-9000000000, 9000000000).Draw(t, "ds") // the V1 JSON decoders go through time.ParseDuration (+-292 years)
			ns := rapid.Int32Range(0, 999999999).Draw(t, "dn")
			if sec < 0 {
				ns = -ns
			}
			sub.Set(md.Fields().ByNumber(1), protoreflect.ValueOfInt64(sec))
			sub.Set(md.Fields().ByNumber(2), protoreflect.ValueOfInt32(ns))
			return sub
		}
	}
	if depth <= 0 || rapid.IntRange(0, 4).Draw(t, "emptychild") == 0 {
		sub := dynamicpb.NewMessage(md)
		if o.requiredProb >= 10 {
			fillRequired(sub, 2)
		}
		return sub
	}
	return genDyn(t, md, depth-1, o)
}

// nilOneMapValue replaces the value under the smallest key of every map with message values by a nil pointer
// (a state plain Go code can create: m.Items[k] = nil).  Reports whether anything was changed.
func nilOneMapValue(m any) bool {
	v := reflect.ValueOf(m).Elem()
	tt := v.Type()
	changed := false
	for i := 0; i < v.NumField(); i++ {
		f := v.Field(i)
		if !tt.Field(i).IsExported() || f.Kind() != reflect.Map || f.Type().Elem().Kind() != reflect.Ptr || f.Len() == 0 {
			continue
		}
		keys := f.MapKeys()
		sort.Slice(keys, func(a, b int) bool { return fmt.Sprint(keys[a].Interface()) < fmt.Sprint(keys[b].Interface()) })
		f.SetMapIndex(keys[0], reflect.Zero(f.Type().Elem()))
		changed = true
	}
	return changed
}

// setEmptyContainers turns every nil slice / map field of a generated struct into an empty non-nil one
// ("present but empty" at the Go level, indistinguishable on the wire).
func setEmptyContainers(m any) {
	v := reflect.ValueOf(m).Elem()
	tt := v.Type()
	for i := 0; i < v.NumField(); i++ {
		f := v.Field(i)
		sf := tt.Field(i)
		if !sf.IsExported() || sf.Tag.Get("protobuf") == "" {
			continue
		}
		switch f.Kind() {
		case reflect.Slice:
			if f.IsNil() && f.Type().Elem().Kind() != reflect.Uint8 { // not a bytes field (presence matters there)
				f.Set(reflect.MakeSlice(f.Type(), 0, 0))
			}
		case reflect.Map:
			if f.IsNil() {
				f.Set(reflect.MakeMap(f.Type()))
			}
		}
	}
}

// hasMultiEntryMap reports whether any map in the message (recursively) has >= 2 entries.
func hasMultiEntryMap(m protoreflect.Message) bool {
	found := false
	m.Range(func(fd protoreflect.FieldDescriptor, v protoreflect.Value) bool {
		switch {
		case fd.IsMap():
			if v.Map().Len() >= 2 {
				found = true
			}
			if fd.MapValue().Message() != nil {
				v.Map().Range(func(_ protoreflect.MapKey, mv protoreflect.Value) bool {
					if hasMultiEntryMap(mv.Message()) {
						found = true
					}
					return !found
				})
			}
		case fd.IsList() && fd.Message() != nil:
			for i := 0; i < v.List().Len(); i++ {
				if hasMultiEntryMap(v.List().Get(i).Message()) {
					found = true
				}
			}
		case fd.Message() != nil:
			if hasMultiEntryMap(v.Message()) {
				found = true
			}
		}
		return !found
	})
	return found
}

// nonTrivialValue: at least one field present.
func nonTrivialValue(m protoreflect.Message) bool {
	n := 0
	m.Range(func(protoreflect.FieldDescriptor, protoreflect.Value) bool { n++; return false })
	return n > 0 || len(m.GetUnknown()) > 0
}
