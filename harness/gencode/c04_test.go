package gencode

import (
	"bytes"
	"encoding/json"
	"fmt"
	"sort"
	"testing"

	"google.golang.org/protobuf/proto"
	"google.golang.org/protobuf/reflect/protoreflect"
	"google.golang.org/protobuf/types/dynamicpb"
	"pgregory.net/rapid"

	"verif/harness/internal/ev"
	"verif/harness/internal/refwire"
)

// GCase is one (generated type, message value) case.  Value is the canonical reference encoding of
// the value; the message is rebuilt from it with the reference runtime, so a replay is exact.
type GCase struct {
	Type            string `json:"type"` // variant/file/Message
	Value           []byte `json:"value"`
	EmptyContainers bool   `json:"empty_containers,omitempty"` // nil slices/maps replaced by empty non-nil ones
	NilMapValue     bool   `json:"nil_map_value,omitempty"`    // one message-typed map value replaced by a nil pointer
}

func (c *GCase) sample() map[string]any {
	mt := typeByKey[c.Type]
	txt := ""
	if mt != nil {
		txt = fmt.Sprintf("%.300v", decodeRef(mt.Desc, c.Value))
	}
	return map[string]any{"type": c.Type, "value_hex": fmt.Sprintf("%.200x", c.Value), "value_text": txt, "empty_containers": c.EmptyContainers}
}

// build materialises the case: the reference value and a fresh concrete message populated from it.
func (c *GCase) build() (*MsgType, *dynamicpb.Message, any) {
	loadCorpus()
	mt := typeByKey[c.Type]
	if mt == nil {
		panic("harness: unknown type " + c.Type)
	}
	dyn := decodeRef(mt.Desc, c.Value)
	m := mt.New()
	FromDynamic(dyn, m)
	if c.EmptyContainers {
		setEmptyContainers(m)
	}
	if c.NilMapValue {
		nilOneMapValue(m)
	}
	return mt, dyn, m
}

func sigOf(prop, kind string, mt *MsgType) string {
	return prop + "/" + kind + "/" + mt.Info.Variant + "/" + mt.Info.File + "/" + mt.Short()
}

func guard(prop string, mt *MsgType, what string, f func()) (fail *ev.Failure) {
	defer func() {
		if r := recover(); r != nil {
			fail = ev.Failf(sigOf(prop, "panic-"+what, mt), "%s panicked: %v", what, r)
		}
	}()
	f()
	return nil
}

// oracleC04: Size == len(Marshal) == bytes written by MarshalTo; nothing panics.
func oracleC04(c *GCase) *ev.Failure {
	mt, dyn, m := c.build()
	fm, ok := m.(fastMsg)
	if !ok {
		panic("harness: " + c.Type + " has no fast-marshal methods")
	}
	var sz, sz2 int
	if f := guard("C04", mt, "Size", func() { sz = fm.Size(); sz2 = fm.Size() }); f != nil {
		return f
	}
	if sz != sz2 {
		return ev.Failf(sigOf("C04", "size-unstable", mt), "Size() returned %d then %d on an unchanged message", sz, sz2)
	}
	var b []byte
	var err error
	if f := guard("C04", mt, "Marshal", func() { b, err = fm.Marshal() }); f != nil {
		return f
	}
	// MarshalTo on a second, identically built message into an exactly-sized sentinel-backed buffer
	var bufs [2][]byte
	var errTo error
	multiMap := hasMultiEntryMap(dyn)
	for run, fill := range []byte{0xA5, 0x5A} {
		_, _, m2 := c.build()
		fm2 := m2.(fastMsg)
		var n int
		if f := guard("C04", mt, "Size", func() { n = fm2.Size() }); f != nil {
			return f
		}
		backing := bytes.Repeat([]byte{fill}, n+16)
		buf := backing[:n:n]
		if f := guard("C04", mt, "MarshalTo", func() { errTo = fm2.MarshalTo(buf) }); f != nil {
			return f
		}
		bufs[run] = buf
	}
	if (err == nil) != (errTo == nil) {
		return ev.Failf(sigOf("C04", "marshal-vs-marshalto-error", mt), "Marshal error: %v, MarshalTo error: %v", err, errTo)
	}
	if err != nil {
		return nil // required-field errors are C17's business; here both calls merely have to agree
	}
	if sz != len(b) {
		return ev.Failf(sigOf("C04", "size-vs-marshal", mt), "Size()=%d but Marshal() returned %d bytes (%.64x) for %.200v", sz, len(b), b, dyn)
	}
	if len(bufs[0]) != sz {
		return ev.Failf(sigOf("C04", "size-unstable", mt), "Size() of an identically built message is %d, not %d", len(bufs[0]), sz)
	}
	if !multiMap {
		if !bytes.Equal(bufs[0], bufs[1]) {
			return ev.Failf(sigOf("C04", "marshalto-slack", mt), "MarshalTo did not fill a buffer of Size()=%d bytes: %x vs %x", sz, bufs[0], bufs[1])
		}
		if !bytes.Equal(bufs[0], b) {
			return ev.Failf(sigOf("C04", "marshalto-vs-marshal", mt), "MarshalTo wrote %.64x, Marshal returned %.64x", bufs[0], b)
		}
	}
	return nil
}

// wireNumbers walks one message level of b and returns the multiset of field numbers found.
func wireNumbers(b []byte) (map[int]int, error) {
	fs, err := refwire.Walk(b)
	if err != nil {
		return nil, err
	}
	out := map[int]int{}
	for _, f := range fs {
		out[f.Num]++
	}
	return out, nil
}

// checkPresence compares, level by level, the field numbers on the wire with the populated fields of
// the reference value: nothing unset may be emitted, nothing set may be dropped.
func checkPresence(prop string, mt *MsgType, b []byte, dyn protoreflect.Message, path string) *ev.Failure {
	nums, err := wireNumbers(b)
	if err != nil {
		return ev.Failf(sigOf(prop, "output-not-wellformed", mt), "output at %q is not a well-formed message: %v (%.64x)", path, err, b)
	}
	want := map[int]bool{}
	dyn.Range(func(fd protoreflect.FieldDescriptor, v protoreflect.Value) bool {
		if fd.IsList() && v.List().Len() == 0 || fd.IsMap() && v.Map().Len() == 0 {
			return true
		}
		want[int(fd.Number())] = true
		return true
	})
	if u := dyn.GetUnknown(); len(u) > 0 {
		un, _ := wireNumbers(u)
		for n := range un {
			want[n] = true
		}
	}
	var phantom, dropped []int
	for n := range nums {
		if !want[n] {
			phantom = append(phantom, n)
		}
	}
	for n := range want {
		if nums[n] == 0 {
			dropped = append(dropped, n)
		}
	}
	sort.Ints(phantom)
	sort.Ints(dropped)
	if len(phantom) > 0 {
		return ev.Failf(sigOf(prop, "phantom-field", mt), "field number(s) %v at %q are on the wire but not populated in the message %.200v (output %.64x)", phantom, path, dyn, b)
	}
	if len(dropped) > 0 {
		return ev.Failf(sigOf(prop, "dropped-field", mt), "populated field number(s) %v at %q are missing from the output %.64x of %.200v", dropped, path, b, dyn)
	}
	// recurse into singular / repeated message fields (occurrence i <-> element i)
	fs, _ := refwire.Walk(b)
	occ := map[int][][]byte{}
	for _, f := range fs {
		if f.WT == refwire.WTLen {
			occ[f.Num] = append(occ[f.Num], b[f.PayloadStart:f.End])
		}
	}
	var fail *ev.Failure
	dyn.Range(func(fd protoreflect.FieldDescriptor, v protoreflect.Value) bool {
		if fd.Message() == nil || fd.IsMap() {
			return true
		}
		payloads := occ[int(fd.Number())]
		if fd.IsList() {
			if len(payloads) != v.List().Len() {
				fail = ev.Failf(sigOf(prop, "element-count", mt), "repeated message field %d at %q: %d elements on the wire, %d in the message", fd.Number(), path, len(payloads), v.List().Len())
				return false
			}
			for i, p := range payloads {
				if fail = checkPresence(prop, mt, p, v.List().Get(i).Message(), fmt.Sprintf("%s.%d[%d]", path, fd.Number(), i)); fail != nil {
					return false
				}
			}
		} else if len(payloads) == 1 {
			if fail = checkPresence(prop, mt, payloads[0], v.Message(), fmt.Sprintf("%s.%d", path, fd.Number())); fail != nil {
				return false
			}
		}
		return true
	})
	return fail
}

// oracleC05: the output, parsed by the reference runtime from the schema alone, equals the original
// with identical presence.
func oracleC05(c *GCase) *ev.Failure {
	mt, dyn, m := c.build()
	if proto.CheckInitialized(dyn) != nil {
		return nil // incomplete messages are C17's subject
	}
	fm := m.(fastMsg)
	var b []byte
	var err error
	if f := guard("C05", mt, "Marshal", func() { b, err = fm.Marshal() }); f != nil {
		return f
	}
	if err != nil {
		return ev.Failf(sigOf("C05", "marshal-error", mt), "Marshal of a complete message failed: %v", err)
	}
	back := dynamicpb.NewMessage(mt.Desc)
	if err := (proto.UnmarshalOptions{Resolver: dynTypes}).Unmarshal(b, back); err != nil {
		return ev.Failf(sigOf("C05", "reference-rejects-output", mt), "the reference runtime cannot parse the output %.64x: %v", b, err)
	}
	if !proto.Equal(back, dyn) {
		return ev.Failf(sigOf("C05", "value-differs", mt), "reference decodes the output %.64x as %.200v, the original is %.200v", b, back, dyn)
	}
	if f := checkPresence("C05", mt, b, dyn, ""); f != nil {
		return f
	}
	return oracleC05StaleChild(c)
}

// oracleC05StaleChild: the same value, but one child message that has no fast-marshal code of its own (a well-known
// type) was sized by its runtime earlier - as happens when the child object was part of another message that was
// marshaled before - and has grown since.  The parent is fresh.  The output must still be the current contents.
func oracleC05StaleChild(c *GCase) *ev.Failure {
	mt, _, m := c.build()
	if mt.Info.Runtime != "gv2" && mt.Info.Runtime != "gv1gen" {
		return nil
	}
	child := runtimeTouchPlainChildOf(mt, m, len(c.Value), len(c.Value)%2 == 1)
	if child == nil {
		return nil
	}
	pm, ok := child.(proto.Message)
	if !ok || !growScalar(pm.ProtoReflect()) {
		return nil
	}
	if curRec != nil {
		curRec.Class("plain-child-sized-earlier-and-grown-since")
	}
	var want *dynamicpb.Message
	if f := guard("C05", mt, "bridge", func() { want = ToDynamic(m, mt.Desc) }); f != nil {
		return f
	}
	if proto.CheckInitialized(want) != nil {
		return nil
	}
	var b []byte
	var err error
	if f := guard("C05", mt, "Marshal", func() { b, err = m.(fastMsg).Marshal() }); f != nil {
		f.Detail += " (a well-known-type child had been sized by its runtime and has grown since)"
		return f
	}
	if err != nil {
		return ev.Failf(sigOf("C05", "marshal-error", mt), "Marshal failed after a child sized earlier had grown: %v", err)
	}
	back := dynamicpb.NewMessage(mt.Desc)
	if err := (proto.UnmarshalOptions{Resolver: dynTypes}).Unmarshal(b, back); err != nil {
		return ev.Failf(sigOf("C05", "reference-rejects-output-after-child-grew", mt), "a well-known-type child was sized by its runtime earlier and has grown since: the reference cannot parse the parent's output %.64x: %v", b, err)
	}
	if !proto.Equal(back, want) {
		return ev.Failf(sigOf("C05", "value-differs-after-child-grew", mt), "a well-known-type child was sized by its runtime earlier and has grown since: the reference decodes %.64x as %.200v, the contents are %.200v", b, back, want)
	}
	return nil
}

// ---------- shared case stream ----------

type caseStats struct{ sweep, random int }

// runTypeCases drives an oracle over (types of this shard) x (sweep + random values).
func runTypeCases(t *testing.T, rec *ev.Recorder, test string, types []*MsgType, nRandom int, salt uint64, o genOpts, oracle func(*GCase) *ev.Failure) {
	shard, shards := ev.Shard()
	var mine []*MsgType
	for i, mt := range types {
		if i%shards == shard {
			mine = append(mine, mt)
		}
	}
	if len(mine) == 0 {
		return
	}
	one := func(tb ev.TB, c *GCase, class string) {
		mt := typeByKey[c.Type]
		rec.Eval(1)
		rec.Class(class + "/" + mt.Info.Variant)
		dyn := decodeRef(mt.Desc, c.Value)
		if nonTrivialValue(dyn) || c.EmptyContainers {
			rec.NonTrivial(ev.FP(c.Type, c.Value, c.EmptyContainers))
			rec.Sample(mt.Info.Variant+"/"+mt.Info.Feature, c.sample())
		}
		rec.Check(tb, test, c, oracle(c))
	}
	for _, mt := range mine {
		for i, v := range sweepValues(mt.Desc, mt.Info.Runtime) {
			_, b := canon(v)
			one(t, &GCase{Type: mt.Key(), Value: b}, "sweep")
			if i%4 == 0 {
				one(t, &GCase{Type: mt.Key(), Value: b, EmptyContainers: true}, "sweep-empty-containers")
			}
		}
	}
	ev.Rapid(t, nRandom, salt, func(rt *rapid.T) {
		mt := rapid.SampledFrom(mine).Draw(rt, "type")
		o := o
		o.runtime = mt.Info.Runtime
		v := genDyn(rt, mt.Desc, 3, o)
		_, b := canon(v)
		c := &GCase{Type: mt.Key(), Value: b, EmptyContainers: rapid.IntRange(0, 7).Draw(rt, "emptycont") == 0}
		one(rt, c, "random")
	})
}

const ruleValues = "case = (generated message type of the schema corpus [feature matrix: every kind x {proto2 optional/required/repeated/packed, proto3 implicit/optional/repeated/unpacked}, maps per key kind and per value kind, oneofs, nested/recursive, well-known types, extensions per kind and scope, boundary field numbers, composites] x runtime variant {gv2, gogo, legacy(Google v1), gv1gen} x generator options {single file, file per message, unsafe decode}, message value); values = systematic sweep (every field alone at each boundary value, defaults, empty string/bytes/list/map, empty nested message in field/list/map/oneof, Go-level empty non-nil containers) + rapid-random trees (depth <= 3); messages are built on fresh structs through reflection only; "

func replayGCase(prop string, raw json.RawMessage, oracle func(*GCase) *ev.Failure) *ev.Failure {
	var c GCase
	if err := json.Unmarshal(raw, &c); err != nil {
		return ev.Failf(prop+"/replay", "bad case: %v", err)
	}
	loadCorpus()
	if typeByKey[c.Type] == nil {
		return ev.Failf(prop+"/replay-type-missing", "type %s is not part of the generated corpus any more", c.Type)
	}
	return oracle(&c)
}

func TestC04(t *testing.T) {
	rec := ev.New("C04", ruleValues+"oracle: Size()==len(Marshal()), MarshalTo fills an exactly-sized sentinel-backed buffer with the same bytes, Size is stable, no call panics; non-trivial = at least one field present or a present-but-empty container; distinct by (type, reference encoding)")
	defer rec.Write()
	useRecorder(rec)
	defer func() { t.Log(rec.Summary()); fmt.Print(rec.SurveyReport()) }()
	types := fmTypes(nil)
	requireUsable(t, types, 300)
	rec.Extra("types", len(types))
	runTypeCases(t, rec, "gcase", types, ev.N(60000, 1500000), 4, genOpts{requiredProb: 9, maxMap: 3}, oracleC04)
}

func TestC05(t *testing.T) {
	rec := ev.New("C05", ruleValues+"oracle: reference (dynamicpb, schema only) decode of Marshal() output equals the original incl. presence and unknown bytes, and at every nesting level the set of field numbers on the wire equals the set of populated fields (no phantom defaults, nothing dropped); for Google-runtime types with a well-known-type child the same value is marshaled once more after that child object was sized by its runtime and then grown in place (the parent being fresh); non-trivial as C04")
	defer rec.Write()
	useRecorder(rec)
	defer func() { t.Log(rec.Summary()); fmt.Print(rec.SurveyReport()) }()
	types := fmTypes(nil)
	requireUsable(t, types, 300)
	rec.Extra("types", len(types))
	runTypeCases(t, rec, "gcase", types, ev.N(60000, 1500000), 5, genOpts{requiredProb: 10, maxMap: 3}, oracleC05)
}

func TestReplay(t *testing.T) {
	ev.RunReplay(t, func(rp *ev.Replay) *ev.Failure {
		switch rp.Property + "/" + rp.Test {
		case "C04/gcase":
			return replayGCase("C04", rp.Case, oracleC04)
		case "C05/gcase":
			return replayGCase("C05", rp.Case, oracleC05)
		}
		return replayMore(rp)
	})
}
