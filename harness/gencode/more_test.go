package gencode

import (
	"encoding/json"

	"verif/harness/internal/ev"
)

func replayMore(rp *ev.Replay) *ev.Failure {
	switch rp.Property + "/" + rp.Test {
	case "C11/scase", "C11/ucase", "C11/raceround", "C11/firstuse":
		return replayShim(rp)
	case "C12/xcase":
		var c XCase
		if err := json.Unmarshal(rp.Case, &c); err != nil {
			return ev.Failf("C12/replay", "bad case: %v", err)
		}
		f, _ := oracleC12(&c)
		return f
	case "C10/optspelling":
		return oracleC10OptSpelling()
	case "C12/optsweep":
		return c12OptionsSweep()
	case "C12/firstuse":
		var c struct{ K int }
		if err := json.Unmarshal(rp.Case, &c); err != nil {
			return ev.Failf("C12/replay", "bad case: %v", err)
		}
		if c.K >= 1000 { // schedules are sampled: repeat the concurrent round
			for i := 0; i < 15; i++ {
				if f := c12FirstUseRoundOnce(c.K); f != nil {
					return f
				}
			}
			return nil
		}
		return c12FirstUseRoundOnce(c.K)
	case "C18/wktjson":
		var c wktJSONCase
		if err := json.Unmarshal(rp.Case, &c); err != nil {
			return ev.Failf("C18/replay", "bad case: %v", err)
		}
		return oracleC18WKT(&c)
	case "C18/jcase":
		var c JCase
		if err := json.Unmarshal(rp.Case, &c); err != nil {
			return ev.Failf("C18/replay", "bad case: %v", err)
		}
		return oracleC18(&c)
	case "C18/nilprobe":
		return jsonNilProbes()
	case "C16/pkg":
		return replayPkg(rp.Case)
	case "C17/rcase":
		var c RCase
		if err := json.Unmarshal(rp.Case, &c); err != nil {
			return ev.Failf("C17/replay", "bad case: %v", err)
		}
		return oracleC17(&c)
	case "C09/hcase":
		var c HCase
		if err := json.Unmarshal(rp.Case, &c); err != nil {
			return ev.Failf("C09/replay", "bad case: %v", err)
		}
		f, _ := oracleC09(&c)
		return f
	case "C09/racecase":
		var c GCase
		if err := json.Unmarshal(rp.Case, &c); err != nil {
			return ev.Failf("C09/replay", "bad case: %v", err)
		}
		for i := 0; i < 50; i++ {
			if f := raceRound(&c, 16, 10); f != nil {
				return f
			}
		}
		return nil
	case "C09/gogocase":
		var c GogoCase
		if err := json.Unmarshal(rp.Case, &c); err != nil {
			return ev.Failf("C09/replay", "bad case: %v", err)
		}
		return oracleC09Gogo(&c)
	case "C09/racecold":
		var c struct{ K int }
		if err := json.Unmarshal(rp.Case, &c); err != nil {
			return ev.Failf("C09/replay", "bad case: %v", err)
		}
		for i := 0; i < 10; i++ {
			if f := c09ColdRoundOnce(c.K); f != nil {
				return f
			}
		}
		return nil
	case "C06/bcase":
		return replayBCase("C06", rp.Case, oracleC06)
	case "C07/bcase":
		return replayBCase("C07", rp.Case, oracleC07)
	case "C08/bcase":
		return replayBCase("C08", rp.Case, func(c *BCase) *ev.Failure { f, _ := oracleC08(c); return f })
	case "C10/bcase":
		return replayBCase("C10", rp.Case, func(c *BCase) *ev.Failure { f, _ := oracleC10(c); return f })
	}
	return ev.Failf(rp.Property+"/replay", "unknown replay kind %s/%s", rp.Property, rp.Test)
}
