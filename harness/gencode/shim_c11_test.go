package gencode

import (
	"bytes"
	"encoding/json"
	"errors"
	"fmt"
	"os"
	"os/exec"
	"reflect"
	"strings"
	"sync"
	"testing"

	"github.com/CrowdStrike/csproto"
	gogo "github.com/gogo/protobuf/proto"
	gogotypes "github.com/gogo/protobuf/types"
	golang "github.com/golang/protobuf/proto"
	"google.golang.org/protobuf/encoding/prototext"
	"google.golang.org/protobuf/proto"
	"google.golang.org/protobuf/reflect/protoreflect"
	"google.golang.org/protobuf/types/known/durationpb"
	"google.golang.org/protobuf/types/known/structpb"
	"google.golang.org/protobuf/types/known/timestamppb"
	"google.golang.org/protobuf/types/known/wrapperspb"
	"pgregory.net/rapid"

	"verif/harness/internal/ev"
	"verif/harness/internal/refwire"
)

// ---- the owning runtime called directly (the differential oracle of C11) ----

type runtimeAPI struct {
	name      string
	class     csproto.MessageType
	marshal   func(m any) ([]byte, error)
	unmarshal func(b []byte, m any) error
	equal     func(a, b any) bool
	text      func(m any) string
	clone     func(m any) any
}

var runtimes = map[string]*runtimeAPI{
	"gv2": {name: "google-v2", class: csproto.MessageTypeGoogle,
		marshal:   func(m any) ([]byte, error) { return proto.Marshal(m.(proto.Message)) },
		unmarshal: func(b []byte, m any) error { return proto.Unmarshal(b, m.(proto.Message)) },
		equal:     func(a, b any) bool { return proto.Equal(a.(proto.Message), b.(proto.Message)) },
		text:      func(m any) string { return prototext.Format(m.(proto.Message)) },
		clone:     func(m any) any { return proto.Clone(m.(proto.Message)) }},
	"gogo": {name: "gogo", class: csproto.MessageTypeGogo,
		marshal:   func(m any) ([]byte, error) { return gogo.Marshal(m.(gogo.Message)) },
		unmarshal: func(b []byte, m any) error { return gogo.Unmarshal(b, m.(gogo.Message)) },
		equal:     func(a, b any) bool { return gogo.Equal(a.(gogo.Message), b.(gogo.Message)) },
		text:      func(m any) string { return gogo.MarshalTextString(m.(gogo.Message)) },
		clone:     func(m any) any { return gogo.Clone(m.(gogo.Message)) }},
	"legacy": {name: "google-v1", class: csproto.MessageTypeGoogleV1,
		marshal:   func(m any) ([]byte, error) { return golang.Marshal(m.(golang.Message)) },
		unmarshal: func(b []byte, m any) error { return golang.Unmarshal(b, m.(golang.Message)) },
		equal:     func(a, b any) bool { return golang.Equal(a.(golang.Message), b.(golang.Message)) },
		text:      func(m any) string { return golang.MarshalTextString(m.(golang.Message)) },
		clone:     func(m any) any { return golang.Clone(m.(golang.Message)) }},
}

func init() { runtimes["gv1gen"] = runtimes["gv2"] }

// SCase: a type of the corpus (plain or fast-marshal) or a well-known type, plus a value and a
// second value (for Equal / dirty destinations).
type SCase struct {
	Type  string `json:"type"`  // variant/file/Message, or "wkt:<name>"
	Value []byte `json:"value"` // canonical encoding
	Other []byte `json:"other"`
	// an unrestricted value (NaN, infinities, -0.0, undeclared enum numbers allowed): only compared through Equal
	Wild []byte `json:"wild,omitempty"`
	// > 0: instead of the steps on Value, decode encodings nested Deep levels through every self-recursive field
	Deep int `json:"deep,omitempty"`
}

// oracleC11Deep: csproto.Unmarshal / GrpcCodec.Unmarshal accept exactly what the owning runtime's Unmarshal accepts
// for messages nested c.Deep levels deep, and decode the same contents.
func oracleC11Deep(c *SCase) (fail *ev.Failure) {
	mt := typeByKey[c.Type]
	if mt == nil {
		return nil
	}
	rt := runtimes[mt.Info.Runtime]
	defer func() {
		if r := recover(); r != nil {
			fail = ev.Failf(shimSig("panic-deep-unmarshal", c), "panic while decoding a message nested %d levels: %v", c.Deep, r)
		}
	}()
	for i, b := range deepEncodings(mt.Desc, c.Deep) {
		want := mt.New()
		rerr := rt.unmarshal(b, want)
		for _, how := range []string{"csproto.Unmarshal", "GrpcCodec.Unmarshal"} {
			dst := mt.New()
			var err error
			if how == "csproto.Unmarshal" {
				err = csproto.Unmarshal(b, dst)
			} else {
				err = csproto.GrpcCodec{}.Unmarshal(b, dst)
			}
			if (err == nil) != (rerr == nil) {
				return ev.Failf(shimSig("deep-unmarshal-verdict-differs-from-runtime", c), "%s of a %d-byte message nested %d levels (recursive field #%d): %v; %s's own Unmarshal: %v", how, len(b), c.Deep, i, err, rt.name, rerr)
			}
			if err == nil && !rt.equal(dst, want) {
				return ev.Failf(shimSig("deep-unmarshal-differs-from-runtime", c), "%s of a message nested %d levels decodes other contents than %s's own Unmarshal", how, c.Deep, rt.name)
			}
		}
	}
	return nil
}

type wktSpec struct {
	runtime string
	mk      func() any
}

var wkts = map[string]wktSpec{
	"wkt:google/Timestamp":   {"gv2", func() any { return &timestamppb.Timestamp{} }},
	"wkt:google/Duration":    {"gv2", func() any { return &durationpb.Duration{} }},
	"wkt:google/Struct":      {"gv2", func() any { return &structpb.Struct{} }},
	"wkt:google/StringValue": {"gv2", func() any { return &wrapperspb.StringValue{} }},
	"wkt:google/BytesValue":  {"gv2", func() any { return &wrapperspb.BytesValue{} }},
	"wkt:gogo/Timestamp":     {"gogo", func() any { return &gogotypes.Timestamp{} }},
	"wkt:gogo/Duration":      {"gogo", func() any { return &gogotypes.Duration{} }},
	"wkt:gogo/StringValue":   {"gogo", func() any { return &gogotypes.StringValue{} }},
	"wkt:gogo/Struct":        {"gogo", func() any { return &gogotypes.Struct{} }},
}

// newOf allocates a message for the case and fills it from a canonical encoding using the OWNING
// runtime (for well-known types) or the bridge (corpus types).
func (c *SCase) newOf(b []byte) (any, *runtimeAPI, string) {
	if w, ok := wkts[c.Type]; ok {
		m := w.mk()
		rt := runtimes[w.runtime]
		if len(b) > 0 {
			if err := rt.unmarshal(b, m); err != nil {
				panic("harness: owning runtime rejects a generated well-known value: " + err.Error())
			}
		}
		return m, rt, "plain"
	}
	loadCorpus()
	mt := typeByKey[c.Type]
	if mt == nil {
		panic("harness: unknown type " + c.Type)
	}
	m := mt.New()
	if len(b) > 0 {
		FromDynamic(decodeRef(mt.Desc, b), m)
	}
	flavour := "fastmarshal"
	if mt.Info.Plain {
		flavour = "plain"
	}
	return m, runtimes[mt.Info.Runtime], flavour
}

func shimSig(kind string, c *SCase) string {
	t := c.Type
	if mt := typeByKey[c.Type]; mt != nil {
		t = mt.Info.Variant + "/" + mt.Info.File + "/" + mt.Short()
	}
	return "C11/" + kind + "/" + t
}

func shimGuard(c *SCase, what string, f func()) (fail *ev.Failure) {
	defer func() {
		if r := recover(); r != nil {
			fail = ev.Failf(shimSig("panic-"+what, c), "%s panicked: %v", what, r)
		}
	}()
	f()
	return nil
}

// sameContent: the owning runtime's Equal, or - because gogo's Equal distinguishes nil from empty bytes,
// which the wire format cannot express - equality of the reflective copies.
func sameContent(c *SCase, rt *runtimeAPI, a, b any) bool {
	if rt.equal(a, b) {
		return true
	}
	if mt := typeByKey[c.Type]; mt != nil {
		return proto.Equal(ToDynamic(a, mt.Desc), ToDynamic(b, mt.Desc))
	}
	return false
}

func oracleC11(c *SCase) *ev.Failure {
	if c.Deep > 0 {
		return oracleC11Deep(c)
	}
	m, rt, flavour := c.newOf(c.Value)
	other, _, _ := c.newOf(c.Other)
	var fail *ev.Failure
	step := func(what string, f func() *ev.Failure) bool {
		if fail != nil {
			return false
		}
		var inner *ev.Failure
		if g := shimGuard(c, what, func() { inner = f() }); g != nil {
			fail = g
		} else {
			fail = inner
		}
		return fail == nil
	}
	// classification
	step("MsgType", func() *ev.Failure {
		if got := csproto.MsgType(m); got != rt.class {
			return ev.Failf(shimSig("wrong-classification", c), "MsgType(%T) = %v, the type belongs to %s (%v)", m, got, rt.name, rt.class)
		}
		return nil
	})
	// bytes from either side decode to equal messages on either side; Size == len(Marshal)
	var bcs, brt []byte
	step("Marshal", func() *ev.Failure {
		var err error
		if bcs, err = csproto.Marshal(m); err != nil {
			return ev.Failf(shimSig("marshal-error", c), "csproto.Marshal: %v", err)
		}
		if n := csproto.Size(m); n != len(bcs) {
			return ev.Failf(shimSig("size-vs-marshal", c), "csproto.Size=%d, csproto.Marshal returned %d bytes", n, len(bcs))
		}
		fresh, _, _ := c.newOf(nil)
		if err := rt.unmarshal(bcs, fresh); err != nil {
			return ev.Failf(shimSig("runtime-rejects-csproto-bytes", c), "%s cannot unmarshal csproto.Marshal output %.60x: %v", rt.name, bcs, err)
		}
		if !sameContent(c, rt, fresh, m) {
			return ev.Failf(shimSig("csproto-bytes-decode-differently", c), "%s decodes csproto.Marshal output %.60x to %v, original %v", rt.name, bcs, fresh, m)
		}
		return nil
	})
	step("Unmarshal", func() *ev.Failure {
		var err error
		// harness hygiene: the runtime marshals a twin (its Marshal writes the size cache that generated code reads: C09's subject)
		twin, _, _ := c.newOf(c.Value)
		if brt, err = rt.marshal(twin); err != nil {
			return nil // the owning runtime cannot marshal this value (e.g. missing required field): nothing to compare
		}
		for _, how := range []struct {
			dirty bool
			codec bool
		}{{false, false}, {true, false}, {false, true}, {true, true}} {
			dirty := how.dirty
			dst, _, _ := c.newOf(nil)
			kind := "runtime-bytes-decode-differently"
			if dirty {
				dst, _, _ = c.newOf(c.Other)
				kind = "unmarshal-merges-into-populated-destination"
			}
			call, name := csproto.Unmarshal, "csproto.Unmarshal"
			if how.codec { // the gRPC codec is interchangeable with the runtime's Unmarshal as well (also for empty payloads)
				call, name = csproto.GrpcCodec{}.Unmarshal, "GrpcCodec.Unmarshal"
			}
			if err := call(brt, dst); err != nil {
				return ev.Failf(shimSig("unmarshal-error", c), "%s of %s's bytes %.60x: %v", name, rt.name, brt, err)
			}
			// what does the owning runtime produce for the same call?
			want, _, _ := c.newOf(nil)
			if dirty {
				want, _, _ = c.newOf(c.Other)
			}
			if err := rt.unmarshal(brt, want); err != nil {
				return nil
			}
			if !sameContent(c, rt, dst, want) {
				return ev.Failf(shimSig(kind+"/"+flavour, c), "%s(%.60x) into a %s destination gives %v, %s's Unmarshal gives %v", name, brt, map[bool]string{false: "fresh", true: "populated"}[dirty], dst, rt.name, want)
			}
		}
		return nil
	})
	// Size and Marshal of a message that was sized / marshaled before and modified since (messages WITHOUT
	// fast-marshal methods: csproto asks the runtime, which has to recompute; what generated Size() does
	// with its cache is C09's subject)
	if mt := typeByKey[c.Type]; mt != nil && flavour == "plain" && len(c.Other) > 0 {
		step("SizeAfterChange", func() *ev.Failure {
			live, _, _ := c.newOf(c.Value)
			_ = csproto.Size(live)
			if _, err := csproto.Marshal(live); err != nil {
				return nil
			}
			FromDynamic(decodeRef(mt.Desc, c.Other), live) // overwrite the fields set in the other value
			twin, _, _ := c.newOf(c.Value)
			FromDynamic(decodeRef(mt.Desc, c.Other), twin)
			want, err := rt.marshal(twin)
			if err != nil {
				return nil
			}
			if n := csproto.Size(live); n != len(want) {
				return ev.Failf(shimSig("size-stale-after-modification", c), "csproto.Size of a message that was marshaled and then modified = %d; %s marshals the same contents to %d bytes", n, rt.name, len(want))
			}
			got, err := csproto.Marshal(live)
			if err != nil || len(got) != len(want) {
				return ev.Failf(shimSig("marshal-stale-after-modification", c), "csproto.Marshal after a modification: %v, %d bytes; %s marshals the same contents to %d bytes", err, len(got), rt.name, len(want))
			}
			return nil
		})
	}
	// ... and of a message one of whose CHILD messages was modified in place after the parent had been sized and
	// marshaled (Google runtimes keep a size per message object): Marshal first, without a Size call in between
	if mt := typeByKey[c.Type]; mt != nil && flavour == "plain" && (mt.Info.Runtime == "gv2" || mt.Info.Runtime == "gv1gen") {
		step("MarshalAfterChildChange", func() *ev.Failure {
			live, _, _ := c.newOf(c.Value)
			pm, ok := live.(proto.Message)
			if !ok {
				return nil
			}
			if _, err := csproto.Marshal(live); err != nil {
				return nil
			}
			_ = csproto.Size(live)
			if !growSomeChild(pm.ProtoReflect(), 0) {
				return nil
			}
			if curRec != nil {
				curRec.Class("child-modified-in-place-after-marshal")
			}
			twin := proto.Clone(pm)
			want, err := proto.Marshal(twin)
			if err != nil {
				return nil
			}
			got, err := csproto.Marshal(live)
			if err != nil || len(got) != len(want) {
				return ev.Failf(shimSig("marshal-stale-after-child-modification", c), "csproto.Marshal after a child message was modified in place: %v, %d bytes; %s marshals a clone of the same contents to %d bytes", err, len(got), rt.name, len(want))
			}
			back := pm.ProtoReflect().New().Interface()
			if err := proto.Unmarshal(got, back); err != nil || !proto.Equal(back, twin) {
				return ev.Failf(shimSig("marshal-stale-after-child-modification", c), "csproto.Marshal after a child message was modified in place returns %.60x which decodes to %v (%v), contents %v", got, back, err, twin)
			}
			if n := csproto.Size(live); n != len(want) {
				return ev.Failf(shimSig("size-stale-after-child-modification", c), "csproto.Size after a child message was modified in place = %d, %s marshals the same contents to %d bytes", n, rt.name, len(want))
			}
			return nil
		})
	}
	// the EMPTY message: csproto.Marshal / the codec refuse it exactly when the owning runtime does (required fields)
	step("MarshalEmpty", func() *ev.Failure {
		e1, _, _ := c.newOf(nil)
		e2, _, _ := c.newOf(nil)
		e3, _, _ := c.newOf(nil)
		_, rtErr := rt.marshal(e3)
		if _, err := csproto.Marshal(e1); (err == nil) != (rtErr == nil) {
			return ev.Failf(shimSig("marshal-of-empty-message-differs-from-runtime", c), "csproto.Marshal(empty message): %v; %s: %v", err, rt.name, rtErr)
		}
		if _, err := (csproto.GrpcCodec{}).Marshal(e2); (err == nil) != (rtErr == nil) {
			return ev.Failf(shimSig("marshal-of-empty-message-differs-from-runtime", c), "GrpcCodec.Marshal(empty message): %v; %s: %v", err, rt.name, rtErr)
		}
		return nil
	})
	// gRPC codec == package functions
	step("GrpcCodec", func() *ev.Failure {
		codec := csproto.GrpcCodec{}
		if codec.Name() != "proto" {
			return ev.Failf("C11/codec-name", "GrpcCodec.Name() = %q", codec.Name())
		}
		b, err := codec.Marshal(m)
		if err != nil || len(b) != len(bcs) {
			return ev.Failf(shimSig("codec-marshal", c), "GrpcCodec.Marshal: %v, %d bytes; csproto.Marshal %d bytes", err, len(b), len(bcs))
		}
		dst, _, _ := c.newOf(nil)
		if err := codec.Unmarshal(bcs, dst); err != nil || !sameContent(c, rt, dst, m) {
			return ev.Failf(shimSig("codec-unmarshal", c), "GrpcCodec.Unmarshal: %v, result %v, original %v", err, dst, m)
		}
		return nil
	})
	// Clone / Equal / Reset / MarshalText give the runtime's own result
	step("Clone", func() *ev.Failure {
		cl := csproto.Clone(m)
		if cl == nil {
			return ev.Failf(shimSig("clone-nil", c), "Clone returned nil for a supported message")
		}
		if reflect.ValueOf(cl).Pointer() == reflect.ValueOf(m).Pointer() {
			return ev.Failf(shimSig("clone-is-the-original", c), "Clone returned its argument")
		}
		// "gives the runtime's own result": compare with the owning runtime's Clone of an identical twin
		twin, _, _ := c.newOf(c.Value)
		if want := rt.clone(twin); !sameContent(c, rt, cl, want) {
			return ev.Failf(shimSig("clone-differs", c), "Clone gives %v, %s's own Clone gives %v", cl, rt.name, want)
		}
		return nil
	})
	step("Equal", func() *ev.Failure {
		twin, _, _ := c.newOf(c.Value)
		if got, want := csproto.Equal(m, twin), rt.equal(m, twin); got != want {
			return ev.Failf(shimSig("equal-differs-from-runtime", c), "Equal(m, identical twin) = %v, %s says %v", got, rt.name, want)
		}
		if got, want := csproto.Equal(m, other), rt.equal(m, other); got != want {
			return ev.Failf(shimSig("equal-differs-from-runtime", c), "Equal(m, other) = %v, %s says %v (m=%v other=%v)", got, rt.name, want, m, other)
		}
		if len(c.Wild) > 0 {
			// the runtime's OWN verdict, whatever it is (gogo: NaN != NaN even for one and the same message)
			w1, _, _ := c.newOf(c.Wild)
			w2, _, _ := c.newOf(c.Wild)
			for _, p := range []struct {
				what string
				a, b any
			}{{"(w, w) - the same message twice", w1, w1}, {"(w, identical twin)", w1, w2}, {"(w, m)", w1, m}, {"(m, m) - the same message twice", m, m}} {
				if got, want := csproto.Equal(p.a, p.b), rt.equal(p.a, p.b); got != want {
					return ev.Failf(shimSig("equal-differs-from-runtime", c), "Equal%s = %v, %s says %v (w=%v)", p.what, got, rt.name, want, w1)
				}
			}
		}
		// messages of different runtimes are never equal
		for name, w := range wkts {
			if w.runtime != rtKey(rt) && strings.HasSuffix(name, "/Duration") {
				if csproto.Equal(m, w.mk()) || csproto.Equal(w.mk(), m) {
					return ev.Failf(shimSig("equal-across-runtimes", c), "Equal reports a %s message equal to %s", rt.name, name)
				}
			}
		}
		return nil
	})
	step("Reset", func() *ev.Failure {
		cl, _, _ := c.newOf(c.Value)
		csproto.Reset(cl)
		empty, _, _ := c.newOf(nil)
		if !sameContent(c, rt, cl, empty) {
			return ev.Failf(shimSig("reset-leaves-content", c), "after Reset the message is %v", cl)
		}
		return nil
	})
	step("MarshalText", func() *ev.Failure {
		got, err := csproto.MarshalText(m)
		if err != nil {
			return ev.Failf(shimSig("marshaltext-error", c), "MarshalText: %v", err)
		}
		if tm, ok := m.(interface{ MarshalText() ([]byte, error) }); ok {
			w, _ := tm.MarshalText()
			if got != string(w) {
				return ev.Failf(shimSig("marshaltext-differs", c), "MarshalText = %q, the message's own MarshalText = %q", got, w)
			}
			return nil
		}
		twin, _, _ := c.newOf(c.Value)
		if want := rt.text(twin); got != want {
			return ev.Failf(shimSig("marshaltext-differs", c), "MarshalText = %q, %s produces %q", got, rt.name, want)
		}
		return nil
	})
	// MarshalText of a message DECODED from bytes whose (registered, message-typed) extension payload is not a
	// valid message of the extension's type: gogo / golang keep such bytes undecoded until someone looks
	if mt := typeByKey[c.Type]; mt != nil {
		for _, xt := range extensionsOf(mt.Desc) {
			xd := xt.TypeDescriptor()
			if xd.Message() == nil || xd.IsList() {
				continue
			}
			raw := refwire.AppendLen(refwire.AppendKey(append([]byte{}, c.Value...), int(xd.Number()), refwire.WTLen), []byte{0x0a, 0x05, 0x61})
			step("MarshalTextRawExtension", func() *ev.Failure {
				a, _, _ := c.newOf(nil)
				b, _, _ := c.newOf(nil)
				if rt.unmarshal(raw, a) != nil || rt.unmarshal(raw, b) != nil {
					return nil // the runtime validates eagerly: nothing to compare
				}
				want := rt.text(b)
				got, err := csproto.MarshalText(a)
				if tm, ok := a.(interface{ MarshalText() ([]byte, error) }); ok {
					w, _ := tm.MarshalText()
					want = string(w)
				}
				if got != want {
					return ev.Failf(shimSig("marshaltext-differs", c), "MarshalText of a message with an undecodable raw extension = %q, %v; %s produces %q", got, err, rt.name, want)
				}
				return nil
			})
			break
		}
	}
	return fail
}

func rtKey(rt *runtimeAPI) string {
	for k, v := range runtimes {
		if v == rt && k != "gv1gen" {
			return k
		}
	}
	return ""
}

// ---- unsupported values ----

type notProto struct{ X int }

// UCase names one unsupported value and one API entry point.
type UCase struct {
	Value string `json:"value"`
	API   string `json:"api"`
}

var unsupportedValues = map[string]func() any{
	"nil":                func() any { return nil },
	"int":                func() any { return 0 },
	"string":             func() any { return "" },
	"empty-struct":       func() any { return struct{}{} },
	"nil-int-pointer":    func() any { return (*int)(nil) },
	"int-pointer":        func() any { x := 5; return &x },
	"byte-slice":         func() any { return []byte{1, 2} },
	"struct-pointer":     func() any { return &notProto{X: 1} },
	"nil-struct-pointer": func() any { return (*notProto)(nil) },
	"map":                func() any { return map[string]int{"a": 1} },
	"func":               func() any { return func() {} },
}

var unsupportedAPIs = []string{"MsgType", "Marshal", "Unmarshal", "Size", "Clone", "Equal", "MarshalText", "GrpcCodec.Marshal", "GrpcCodec.Unmarshal", "HasExtension", "GetExtension", "SetExtension", "ClearAllExtensions", "RangeExtensions", "JSONMarshaler", "JSONUnmarshaler"}

func oracleUnsupported(c *UCase) (fail *ev.Failure) {
	v := unsupportedValues[c.Value]()
	sig := "C11/unsupported-value-panics/" + c.API + "/" + c.Value
	defer func() {
		if r := recover(); r != nil {
			fail = ev.Failf(sig, "%s(%s) panicked: %v", c.API, c.Value, r)
		}
	}()
	bad := func(format string, a ...any) *ev.Failure {
		return ev.Failf("C11/unsupported-value-result/"+c.API+"/"+c.Value, format, a...)
	}
	switch c.API {
	case "MsgType":
		if got := csproto.MsgType(v); got != csproto.MessageTypeUnknown {
			return bad("MsgType = %v, expected MessageTypeUnknown", got)
		}
	case "Marshal":
		if b, err := csproto.Marshal(v); !errors.Is(err, csproto.ErrMarshaler) {
			return bad("Marshal = %x, %v; documented: ErrMarshaler", b, err)
		}
	case "Unmarshal":
		if err := csproto.Unmarshal([]byte{8, 1}, v); !errors.Is(err, csproto.ErrUnmarshaler) {
			return bad("Unmarshal = %v; documented: ErrUnmarshaler", err)
		}
	case "Size":
		if n := csproto.Size(v); n != 0 {
			return bad("Size = %d", n)
		}
	case "Clone":
		if cl := csproto.Clone(v); cl != nil {
			return bad("Clone = %v; documented: nil", cl)
		}
	case "Equal":
		if csproto.Equal(v, v) || csproto.Equal(v, &timestamppb.Timestamp{}) || csproto.Equal(&timestamppb.Timestamp{}, v) {
			return bad("Equal reports true for an unsupported value")
		}
	case "MarshalText":
		if s, err := csproto.MarshalText(v); err == nil {
			return bad("MarshalText = %q without an error", s)
		}
	case "GrpcCodec.Marshal":
		if _, err := (csproto.GrpcCodec{}).Marshal(v); err == nil {
			return bad("GrpcCodec.Marshal: no error")
		}
	case "GrpcCodec.Unmarshal":
		if err := (csproto.GrpcCodec{}).Unmarshal([]byte{8, 1}, v); err == nil {
			return bad("GrpcCodec.Unmarshal: no error")
		}
	case "HasExtension":
		if csproto.HasExtension(v, nil) {
			return bad("HasExtension = true")
		}
	case "GetExtension":
		if _, err := csproto.GetExtension(v, nil); err == nil {
			return bad("GetExtension: no error")
		}
	case "SetExtension":
		if err := csproto.SetExtension(v, nil, 1); err == nil {
			return bad("SetExtension: no error")
		}
	case "ClearAllExtensions":
		csproto.ClearAllExtensions(v)
	case "RangeExtensions":
		if err := csproto.RangeExtensions(v, func(any, string, int32) error { return nil }); err == nil {
			return bad("RangeExtensions: no error")
		}
	case "JSONMarshaler":
		if rv := reflect.ValueOf(v); v == nil || rv.Kind() == reflect.Ptr && rv.IsNil() {
			return nil // documented: a nil message marshals to (nil, nil)
		}
		if _, err := csproto.JSONMarshaler(v).MarshalJSON(); err == nil {
			return bad("JSONMarshaler: no error")
		}
	case "JSONUnmarshaler":
		if err := csproto.JSONUnmarshaler(v).UnmarshalJSON([]byte("{}")); err == nil {
			return bad("JSONUnmarshaler: no error")
		}
	}
	return nil
}

// ---- drivers ----

func shimTypes() []*MsgType {
	loadCorpus()
	var out []*MsgType
	for _, mt := range allTypes {
		v := mt.Info.Variant
		if v == "gv2plain" || v == "gogoplain" || v == "legacyplain" || v == "gv2s" || v == "gogos" || v == "legacys" || v == "gv1s" {
			if mt.Info.Plain || mt.Info.Usable {
				out = append(out, mt)
			}
		}
	}
	return out
}

const ruleC11 = "case = (message type: plain [no fast-marshal methods] and fast-marshal types of gogo / Google v1 (legacy) / Google v2 from the schema corpus, Google and gogo well-known types; value; a second value) -> differential against the OWNING runtime called directly: Unmarshal_rt(Marshal_cs(m)) == m, Unmarshal_cs(Marshal_rt(m)) == what the runtime's own Unmarshal gives (fresh and pre-populated destination), Size == len(Marshal) - also for a plain message that was marshaled, then modified -, Clone equal and not identical, Equal == the runtime's verdict (false across runtimes; also on unrestricted values with NaN / infinities / -0.0 and with one and the same message on both sides), Reset => empty, MarshalText == the runtime's text in the same process, GrpcCodec == package functions, MsgType == the runtime the type was generated for; Marshal after a child message was modified in place; messages nested {99,100,101,150,1000,5000} levels through every self-recursive field: Unmarshal / GrpcCodec.Unmarshal accept and decode exactly what the owning runtime's Unmarshal does; unsupported values {nil, 0, \"\", struct{}, *int, []byte, pointer to a plain struct, map, func} x every entry point: documented error / zero result, no panic; first-use classification races are run in a -race binary that re-executes itself; non-trivial = a non-empty message of a type whose dispatch path is not the first probe (plain types), or an unsupported value; distinct by (type, value)"

func TestC11(t *testing.T) {
	rec := ev.New("C11", ruleC11)
	defer rec.Write()
	useRecorder(rec)
	defer func() { t.Log(rec.Summary()); fmt.Print(rec.SurveyReport()) }()
	shard, shards := ev.Shard()
	// unsupported values x entry points (exhaustive)
	i := 0
	for name := range unsupportedValues {
		for _, api := range unsupportedAPIs {
			i++
			if i%shards != shard {
				continue
			}
			c := &UCase{Value: name, API: api}
			rec.Eval(1)
			rec.NonTrivialEnum(1)
			rec.Class("unsupported-value")
			rec.Sample("unsupported", c)
			rec.Check(t, "ucase", c, oracleUnsupported(c))
		}
	}
	mine := shardTypes(shimTypes())
	// deep nesting: every type with a self-recursive field x depths around the limits runtimes are known to use
	for _, mt := range mine {
		if len(deepEncodings(mt.Desc, 1)) == 0 {
			continue
		}
		for _, depth := range []int{99, 100, 101, 150, 1000, 5000} {
			c := &SCase{Type: mt.Key(), Deep: depth}
			rec.Eval(1)
			rec.NonTrivialEnum(1)
			rec.Class(fmt.Sprintf("deep-nesting/%d", depth))
			rec.Check(t, "scase", c, oracleC11(c))
		}
	}
	var wktNames []string
	for n := range wkts {
		wktNames = append(wktNames, n)
	}
	sortStrings(wktNames)
	if len(mine) == 0 {
		return
	}
	ev.Rapid(t, ev.N(20000, 400000), 11, func(rt *rapid.T) {
		c := &SCase{}
		if rapid.IntRange(0, 9).Draw(rt, "wkt") == 0 {
			c.Type = rapid.SampledFrom(wktNames).Draw(rt, "wktname")
			c.Value = genWKT(rt, c.Type)
			c.Other = genWKT(rt, c.Type)
		} else {
			mt := rapid.SampledFrom(mine).Draw(rt, "type")
			c.Type = mt.Key()
			// gogo's Equal is not NaN-aware: finite floats only (jsonSafe)
			_, c.Value = canon(genDyn(rt, mt.Desc, 2, genOpts{runtime: mt.Info.Runtime, requiredProb: 10, maxMap: 1, jsonSafe: true}))
			_, c.Other = canon(genDyn(rt, mt.Desc, 2, genOpts{runtime: mt.Info.Runtime, requiredProb: 10, maxMap: 1, jsonSafe: true}))
			if rapid.Bool().Draw(rt, "haswild") {
				wild := genDyn(rt, mt.Desc, 2, genOpts{runtime: mt.Info.Runtime, requiredProb: 10, maxMap: 1})
				_, c.Wild = canon(wild)
				if hasNaN(wild) {
					rec.Class("equal/value-with-NaN")
				}
			}
		}
		_, _, flavour := c.newOf(nil)
		rec.Eval(1)
		rec.Class("flavour/" + flavour)
		if mt := typeByKey[c.Type]; mt != nil {
			rec.Class("runtime/" + mt.Info.Runtime)
		} else {
			rec.Class("well-known-type")
		}
		if len(c.Value) > 0 && flavour == "plain" {
			rec.NonTrivial(ev.FP(c.Type, c.Value, c.Other))
			rec.Sample(flavour+"/"+strings.SplitN(c.Type, "/", 2)[0], map[string]any{"type": c.Type, "value_hex": fmt.Sprintf("%.80x", c.Value), "other_hex": fmt.Sprintf("%.80x", c.Other)})
		}
		rec.Check(rt, "scase", c, oracleC11(c))
	})
}

// hasNaN: does the message hold a NaN float/double anywhere?
func hasNaN(m protoreflect.Message) bool {
	found := false
	var visit func(fd protoreflect.FieldDescriptor, v protoreflect.Value)
	visit = func(fd protoreflect.FieldDescriptor, v protoreflect.Value) {
		switch {
		case fd.Message() != nil:
			if hasNaN(v.Message()) {
				found = true
			}
		case fd.Kind() == protoreflect.FloatKind || fd.Kind() == protoreflect.DoubleKind:
			if f := v.Float(); f != f {
				found = true
			}
		}
	}
	m.Range(func(fd protoreflect.FieldDescriptor, v protoreflect.Value) bool {
		switch {
		case fd.IsList():
			for i := 0; i < v.List().Len(); i++ {
				visit(fd, v.List().Get(i))
			}
		case fd.IsMap():
			v.Map().Range(func(_ protoreflect.MapKey, mv protoreflect.Value) bool { visit(fd.MapValue(), mv); return true })
		default:
			visit(fd, v)
		}
		return !found
	})
	return found
}

func sortStrings(s []string) {
	for i := range s {
		for j := i + 1; j < len(s); j++ {
			if s[j] < s[i] {
				s[i], s[j] = s[j], s[i]
			}
		}
	}
}

// genWKT draws a value of a well-known type as its canonical encoding.
func genWKT(t *rapid.T, name string) []byte {
	var m proto.Message
	switch {
	case strings.HasSuffix(name, "/Timestamp"):
		m = &timestamppb.Timestamp{Seconds: rapid.Int64().Draw(t, "s"), Nanos: rapid.Int32Range(0, 999999999).Draw(t, "n")}
	case strings.HasSuffix(name, "/Duration"):
		m = &durationpb.Duration{Seconds: rapid.Int64().Draw(t, "s"), Nanos: rapid.Int32().Draw(t, "n")}
	case strings.HasSuffix(name, "/StringValue"):
		m = wrapperspb.String(rapid.StringN(0, 12, 40).Draw(t, "sv"))
	case strings.HasSuffix(name, "/BytesValue"):
		m = wrapperspb.Bytes(rapid.SliceOfN(rapid.Byte(), 0, 12).Draw(t, "bv"))
	case strings.HasSuffix(name, "/Struct"):
		m, _ = structpb.NewStruct(map[string]any{rapid.StringMatching("[a-z]{1,4}").Draw(t, "k"): rapid.Float64Range(-1e6, 1e6).Draw(t, "num")})
	}
	b, err := proto.MarshalOptions{Deterministic: true}.Marshal(m)
	if err != nil {
		panic(err)
	}
	return b
}

// ---- first-use classification under concurrency (race build, fresh process per round) ----

const envRaceChild = "VERIF_C11_CHILD"

func TestC11Race(t *testing.T) {
	if v := os.Getenv(envRaceChild); strings.HasPrefix(v, "first:") {
		c11FirstUseChild(t, v)
		return
	} else if v != "" {
		c11RaceChild(t)
		return
	}
	rec := ev.New("C11", "schedule clause: the -race test binary re-executes itself R times (fresh process => empty classification cache); in each process G in {8,32,64} goroutines released by a barrier call MsgType on every corpus type for the first time; every goroutine must see the class of the runtime the type was generated for; any race report fails the round; first-use order clause: R' further fresh processes in which each corpus type's FIRST use is one of 11 entry-point calls (MsgType / Equal / Clone / Size / Marshal / MarshalText / JSONMarshaler / ClearAllExtensions / Unmarshal on a typed nil pointer, MsgType / Equal on a message), rotated so that every (type, first use) pair occurs; afterwards MsgType of a fresh message is the generating runtime's class, Clone is non-nil and Equal(empty, empty) holds")
	defer rec.Write()
	defer func() { t.Log(rec.Summary()) }()
	rec.Extra("race_detector", raceEnabled)
	rounds := ev.N(12, 240)
	for r := 0; r < rounds; r++ {
		g := []int{8, 32, 64}[r%3]
		procs := []int{1, 2, 16}[(r/3)%3]
		f := raceRoundOnce(g, procs)
		rec.Eval(int64(g))
		rec.NonTrivialEnum(int64(g))
		rec.Class(fmt.Sprintf("goroutines=%d", g))
		rec.Class(fmt.Sprintf("gomaxprocs=%d", procs))
		c := map[string]any{"goroutines": g, "gomaxprocs": procs}
		rec.Sample(fmt.Sprintf("g=%d", g), c)
		rec.Check(t, "raceround", c, f)
	}
	// first-use order: what the FIRST call involving a type was (which entry point, nil pointer or message)
	// must not influence how the type is classified afterwards.  One fresh process per round; in round k type
	// i gets first-use op (i+k) mod len(firstUseOps), so len(firstUseOps) rounds enumerate every (type, op) pair.
	nTypes := len(shimTypes())
	for k := 0; k < ev.N(len(firstUseOps), 4*len(firstUseOps)); k++ {
		f := firstUseRoundOnce(k)
		rec.Eval(int64(nTypes))
		rec.NonTrivialEnum(int64(nTypes))
		rec.Class("first-use-order-round")
		c := map[string]any{"k": k}
		rec.Sample("first-use", map[string]any{"k": k, "types": nTypes, "ops": firstUseNames()})
		rec.Check(t, "firstuse", c, f)
	}
}

type firstUseOp struct {
	name string
	run  func(nilPtr, msg any)
}

var firstUseOps = []firstUseOp{
	{"MsgType-of-nil-pointer", func(n, m any) { csproto.MsgType(n) }},
	{"Equal-of-nil-pointers", func(n, m any) { csproto.Equal(n, n) }},
	{"Clone-of-nil-pointer", func(n, m any) { csproto.Clone(n) }},
	{"Size-of-nil-pointer", func(n, m any) { csproto.Size(n) }},
	{"Marshal-of-nil-pointer", func(n, m any) { _, _ = csproto.Marshal(n) }},
	{"MarshalText-of-nil-pointer", func(n, m any) { _, _ = csproto.MarshalText(n) }},
	{"MsgType-of-message", func(n, m any) { csproto.MsgType(m) }},
	{"Equal-of-message-and-nil-pointer", func(n, m any) { csproto.Equal(m, n) }},
	{"JSONMarshaler-of-nil-pointer", func(n, m any) { _, _ = csproto.JSONMarshaler(n).MarshalJSON() }},
	{"ClearAllExtensions-of-nil-pointer", func(n, m any) { csproto.ClearAllExtensions(n) }},
	{"Unmarshal-into-nil-pointer", func(n, m any) { _ = csproto.Unmarshal([]byte{}, n) }},
}

func firstUseNames() []string {
	var out []string
	for _, o := range firstUseOps {
		out = append(out, o.name)
	}
	return out
}

func firstUseRoundOnce(k int) *ev.Failure {
	cmd := exec.Command(os.Args[0], "-test.run", "^TestC11Race$", "-test.count=1")
	cmd.Env = append(os.Environ(), fmt.Sprintf("%s=first:%d", envRaceChild, k), "VERIF_EVIDENCE_PART=", "VERIF_REPLAY=")
	out, err := cmd.CombinedOutput()
	if bytes.Contains(out, []byte("C11-CHILD-FAIL")) {
		ln := regexpFind(out, "")
		op := "?"
		if i := strings.Index(ln, "first use = "); i >= 0 {
			op = strings.SplitN(ln[i+len("first use = "):], ";", 2)[0]
		}
		return ev.Failf("C11/classification-depends-on-first-use/"+op, "%s", ln)
	}
	if err != nil || !bytes.Contains(out, []byte("C11-CHILD-OK")) {
		panic(fmt.Sprintf("harness: re-executed child neither passed nor reported a wrong classification: %v\n%.800s", err, out))
	}
	return nil
}

func c11FirstUseChild(t *testing.T, spec string) {
	var k int
	fmt.Sscanf(spec, "first:%d", &k)
	bad := ""
	for i, mt := range shimTypes() {
		op := firstUseOps[(i+k)%len(firstUseOps)]
		msg := mt.New()
		nilPtr := reflect.Zero(reflect.TypeOf(msg)).Interface()
		func() {
			defer func() { _ = recover() }() // what the call on a nil pointer does is not the subject here
			op.run(nilPtr, msg)
		}()
		want := runtimes[mt.Info.Runtime].class
		fresh := mt.New()
		if got := csproto.MsgType(fresh); got != want {
			bad = fmt.Sprintf("first use = %s; afterwards MsgType(%T) = %v, want %v", op.name, fresh, got, want)
			break
		}
		var cl any
		func() {
			defer func() { _ = recover() }()
			cl = csproto.Clone(fresh)
		}()
		if cl == nil || !csproto.Equal(fresh, mt.New()) {
			bad = fmt.Sprintf("first use = %s; afterwards Clone(%T) = %v, Equal(empty, empty) = %v", op.name, fresh, cl, csproto.Equal(fresh, mt.New()))
			break
		}
	}
	if bad != "" {
		fmt.Println("C11-CHILD-FAIL " + bad)
		t.Fail()
		return
	}
	fmt.Println("C11-CHILD-OK")
}

// raceRoundOnce re-executes the test binary (fresh process => empty classification cache) and lets g
// goroutines classify every corpus type for the first time.
func raceRoundOnce(g, procs int) *ev.Failure {
	cmd := exec.Command(os.Args[0], "-test.run", "^TestC11Race$", "-test.count=1")
	cmd.Env = append(os.Environ(), fmt.Sprintf("%s=%d", envRaceChild, g), fmt.Sprintf("GOMAXPROCS=%d", procs), "VERIF_EVIDENCE_PART=", "VERIF_REPLAY=")
	out, err := cmd.CombinedOutput()
	if bytes.Contains(out, []byte("WARNING: DATA RACE")) {
		return ev.Failf("C11/data-race/first-classification", "race detector report while %d goroutines classified fresh types:\n%.1500s", g, out)
	}
	if bytes.Contains(out, []byte("C11-CHILD-FAIL")) {
		return ev.Failf("C11/wrong-classification-under-concurrency", "%s", regexpFind(out, "C11-CHILD-FAIL .*"))
	}
	if err != nil || !bytes.Contains(out, []byte("C11-CHILD-OK")) {
		// the child died for a reason that is not about classification (harness trouble): inconclusive, never a verdict
		panic(fmt.Sprintf("harness: re-executed child neither passed nor reported a wrong classification: %v\n%.800s", err, out))
	}
	return nil
}

func regexpFind(b []byte, _ string) string {
	for _, ln := range strings.Split(string(b), "\n") {
		if strings.Contains(ln, "C11-CHILD-FAIL") {
			return ln
		}
	}
	s := string(b)
	if len(s) > 600 {
		s = s[len(s)-600:]
	}
	return s
}

func c11RaceChild(t *testing.T) {
	var g int
	fmt.Sscan(os.Getenv(envRaceChild), &g)
	types := shimTypes()
	msgs := make([]any, len(types))
	want := make([]csproto.MessageType, len(types))
	for i, mt := range types {
		msgs[i] = mt.New()
		want[i] = runtimes[mt.Info.Runtime].class
	}
	var wg sync.WaitGroup
	start := make(chan struct{})
	var mu sync.Mutex
	bad := ""
	for k := 0; k < g; k++ {
		k := k
		wg.Add(1)
		go func() {
			defer wg.Done()
			<-start
			for j := range msgs {
				i := (j + k*7) % len(msgs)
				if got := csproto.MsgType(msgs[i]); got != want[i] {
					mu.Lock()
					bad = fmt.Sprintf("goroutine %d: MsgType(%T) = %v, want %v", k, msgs[i], got, want[i])
					mu.Unlock()
					return
				}
			}
		}()
	}
	close(start)
	wg.Wait()
	if bad != "" {
		fmt.Println("C11-CHILD-FAIL " + bad)
		t.Fail()
		return
	}
	fmt.Println("C11-CHILD-OK")
}

func replayShim(rp *ev.Replay) *ev.Failure {
	switch rp.Test {
	case "scase":
		var c SCase
		if err := json.Unmarshal(rp.Case, &c); err != nil {
			return ev.Failf("C11/replay", "bad case: %v", err)
		}
		loadCorpus()
		if _, ok := wkts[c.Type]; !ok && typeByKey[c.Type] == nil {
			return ev.Failf("C11/replay-type-missing", "type %s is not part of the generated corpus any more", c.Type)
		}
		return oracleC11(&c)
	case "raceround":
		var c struct{ Goroutines, Gomaxprocs int }
		if err := json.Unmarshal(rp.Case, &c); err != nil {
			return ev.Failf("C11/replay", "bad case: %v", err)
		}
		// schedules are sampled: repeat the fresh-process round
		for i := 0; i < 40; i++ {
			if f := raceRoundOnce(c.Goroutines, c.Gomaxprocs); f != nil {
				return f
			}
		}
		return nil
	case "firstuse":
		var c struct{ K int }
		if err := json.Unmarshal(rp.Case, &c); err != nil {
			return ev.Failf("C11/replay", "bad case: %v", err)
		}
		return firstUseRoundOnce(c.K)
	case "ucase":
		var c UCase
		if err := json.Unmarshal(rp.Case, &c); err != nil {
			return ev.Failf("C11/replay", "bad case: %v", err)
		}
		return oracleUnsupported(&c)
	}
	return ev.Failf("C11/replay", "unknown replay kind %s", rp.Test)
}

// growSomeChild finds a populated child message (singular field, list element or map value, depth <= 3) and
// changes one of its scalar fields IN PLACE so that its encoded size grows.  Reports whether it did.
func growSomeChild(m protoreflect.Message, depth int) bool {
	done := false
	m.Range(func(fd protoreflect.FieldDescriptor, v protoreflect.Value) bool {
		var kids []protoreflect.Message
		switch {
		case fd.IsMap():
			if fd.MapValue().Message() != nil {
				v.Map().Range(func(_ protoreflect.MapKey, mv protoreflect.Value) bool { kids = append(kids, mv.Message()); return true })
			}
		case fd.IsList():
			if fd.Message() != nil {
				for i := 0; i < v.List().Len(); i++ {
					kids = append(kids, v.List().Get(i).Message())
				}
			}
		case fd.Message() != nil:
			kids = append(kids, v.Message())
		}
		for _, k := range kids {
			if !k.IsValid() {
				continue
			}
			if growScalar(k) || (depth < 3 && growSomeChild(k, depth+1)) {
				done = true
				return false
			}
		}
		return true
	})
	return done
}

func growScalar(m protoreflect.Message) bool {
	fs := m.Descriptor().Fields()
	for i := 0; i < fs.Len(); i++ {
		fd := fs.Get(i)
		if fd.IsList() || fd.IsMap() || fd.ContainingOneof() != nil && !fd.HasOptionalKeyword() {
			continue
		}
		switch fd.Kind() {
		case protoreflect.StringKind:
			m.Set(fd, protoreflect.ValueOfString(m.Get(fd).String()+"-grown-by-the-harness-0123456789"))
			return true
		case protoreflect.BytesKind:
			m.Set(fd, protoreflect.ValueOfBytes(append(append([]byte{}, m.Get(fd).Bytes()...), make([]byte, 40)...)))
			return true
		case protoreflect.Int64Kind, protoreflect.Sint64Kind, protoreflect.Sfixed64Kind:
			if m.Get(fd).Int() != -1234567890123 {
				m.Set(fd, protoreflect.ValueOfInt64(-1234567890123))
				return true
			}
		case protoreflect.Uint64Kind, protoreflect.Fixed64Kind:
			if m.Get(fd).Uint() != 1<<62 {
				m.Set(fd, protoreflect.ValueOfUint64(1<<62))
				return true
			}
		}
	}
	return false
}
