package gencode

import (
	"math"

	"google.golang.org/protobuf/reflect/protoreflect"
	"google.golang.org/protobuf/types/dynamicpb"
	"pgregory.net/rapid"

	"verif/harness/internal/refwire"
	"verif/harness/internal/wiregen"
)

// A schema-aware encoder that emits LEGAL but non-canonical encodings of a message: the choices a
// conforming writer is free to make are drawn from rapid.  What the encoding means is decided by the
// reference runtime decoding the same bytes, not by this encoder.

type varStats struct {
	permuted, repacked, splitRun, dupScalar, splitMsg, mapSwapped, mapKeyOmitted, mapValOmitted, mapDupKey, mapExtra, unknown, oneofDup, explicitDefault int
}

func (s *varStats) any() bool {
	return s.permuted+s.repacked+s.splitRun+s.dupScalar+s.splitMsg+s.mapSwapped+s.mapKeyOmitted+s.mapValOmitted+s.mapDupKey+s.mapExtra+s.unknown+s.oneofDup+s.explicitDefault > 0
}

type varOpts struct {
	permute  bool
	repack   bool
	dups     bool
	splitMsg bool
	mapShape bool
	unknowns bool
	// explicit occurrences of the DEFAULT value for unset implicit-presence scalars (08 00, 0a 00): legal on the
	// wire although canonical writers omit them; the decoded message is the same
	explicitDefaults bool
}

var allVariants = varOpts{true, true, true, true, true, true, true}

func wireTypeOf(k protoreflect.Kind) int {
	switch k {
	case protoreflect.Fixed32Kind, protoreflect.Sfixed32Kind, protoreflect.FloatKind:
		return refwire.WTFixed32
	case protoreflect.Fixed64Kind, protoreflect.Sfixed64Kind, protoreflect.DoubleKind:
		return refwire.WTFixed64
	case protoreflect.StringKind, protoreflect.BytesKind, protoreflect.MessageKind:
		return refwire.WTLen
	}
	return refwire.WTVarint
}

// appendScalar appends the value (no key) of a non-message kind.
func appendScalar(b []byte, k protoreflect.Kind, v protoreflect.Value) []byte {
	switch k {
	case protoreflect.BoolKind:
		if v.Bool() {
			return append(b, 1)
		}
		return append(b, 0)
	case protoreflect.Int32Kind, protoreflect.Int64Kind:
		return refwire.AppendVarint(b, uint64(v.Int())) // negatives are sign-extended to 10 bytes
	case protoreflect.EnumKind:
		return refwire.AppendVarint(b, uint64(int64(v.Enum())))
	case protoreflect.Uint32Kind, protoreflect.Uint64Kind:
		return refwire.AppendVarint(b, v.Uint())
	case protoreflect.Sint32Kind:
		return refwire.AppendVarint(b, refwire.ZigZag32(int32(v.Int())))
	case protoreflect.Sint64Kind:
		return refwire.AppendVarint(b, refwire.ZigZag64(v.Int()))
	case protoreflect.Fixed32Kind:
		return refwire.AppendFixed32(b, uint32(v.Uint()))
	case protoreflect.Sfixed32Kind:
		return refwire.AppendFixed32(b, uint32(int32(v.Int())))
	case protoreflect.FloatKind:
		return refwire.AppendFixed32(b, math.Float32bits(float32(v.Float())))
	case protoreflect.Fixed64Kind:
		return refwire.AppendFixed64(b, v.Uint())
	case protoreflect.Sfixed64Kind:
		return refwire.AppendFixed64(b, uint64(v.Int()))
	case protoreflect.DoubleKind:
		return refwire.AppendFixed64(b, math.Float64bits(v.Float()))
	case protoreflect.StringKind:
		return refwire.AppendLen(b, []byte(v.String()))
	case protoreflect.BytesKind:
		return refwire.AppendLen(b, v.Bytes())
	}
	panic("appendScalar " + k.String())
}

func isPackableKind(k protoreflect.Kind) bool {
	return k != protoreflect.StringKind && k != protoreflect.BytesKind && k != protoreflect.MessageKind && k != protoreflect.GroupKind
}

func fieldOcc(num int, k protoreflect.Kind, v protoreflect.Value) []byte {
	return appendScalar(refwire.AppendKey(nil, num, wireTypeOf(k)), k, v)
}

// unknownNumbers returns numbers that are neither fields nor declared extensions of md.
func unknownNumber(t *rapid.T, md protoreflect.MessageDescriptor) int {
	for {
		n := rapid.OneOf(rapid.IntRange(1, 60), rapid.SampledFrom([]int{200, 1000, 18999, 20000, 1 << 20, 1<<26 - 1, 1 << 26, 1<<29 - 1, 150})).Draw(t, "unknum")
		if md.Fields().ByNumber(protoreflect.FieldNumber(n)) != nil {
			continue
		}
		clash := false
		for _, xt := range extensionsOf(md) {
			if int(xt.TypeDescriptor().Number()) == n {
				clash = true
			}
		}
		if !clash {
			return n
		}
	}
}

// appendPaddedVarint writes v with `extra` superfluous continuation groups (an over-long but legal varint, as
// written by encoders that reserve a fixed-width length and back-patch it); at most 10 bytes in all.
func appendPaddedVarint(b []byte, v uint64, extra int) []byte {
	min := refwire.AppendVarint(nil, v)
	if len(min)+extra > 10 {
		extra = 10 - len(min)
	}
	if extra <= 0 {
		return append(b, min...)
	}
	min[len(min)-1] |= 0x80
	b = append(b, min...)
	for i := 0; i < extra-1; i++ {
		b = append(b, 0x80)
	}
	return append(b, 0x00)
}

func genUnknownField(t *rapid.T, md protoreflect.MessageDescriptor) []byte {
	n := unknownNumber(t, md)
	pad := 0
	if rapid.IntRange(0, 3).Draw(t, "unkpad") == 0 {
		pad = rapid.IntRange(1, 3).Draw(t, "unkpadn") // the VALUE / LENGTH varint is over-long (the key never: a recorded finding)
	}
	switch rapid.IntRange(0, 3).Draw(t, "unkwt") {
	case 0:
		return appendPaddedVarint(refwire.AppendKey(nil, n, 0), wiregen.U64().Draw(t, "unkv"), pad)
	case 1:
		return refwire.AppendFixed64(refwire.AppendKey(nil, n, 1), wiregen.U64().Draw(t, "unk64"))
	case 2:
		payload := rapid.SliceOfN(rapid.Byte(), 0, 9).Draw(t, "unkb")
		return append(appendPaddedVarint(refwire.AppendKey(nil, n, 2), uint64(len(payload)), pad), payload...)
	default:
		return refwire.AppendFixed32(refwire.AppendKey(nil, n, 5), uint32(wiregen.U64().Draw(t, "unk32")))
	}
}

// encodeVariant returns a legal encoding of m.
func encodeVariant(t *rapid.T, m protoreflect.Message, o varOpts, st *varStats, depth int) []byte {
	md := m.Descriptor()
	var pieces [][]byte
	m.Range(func(fd protoreflect.FieldDescriptor, v protoreflect.Value) bool {
		num := int(fd.Number())
		if od := fd.ContainingOneof(); od != nil && !od.IsSynthetic() && o.dups && od.Fields().Len() > 1 && rapid.IntRange(0, 2).Draw(t, "oneofdup") == 0 {
			// ANOTHER member of the same oneof also occurs on the wire: whichever comes last wins and clears the other
			var others []protoreflect.FieldDescriptor
			for i := 0; i < od.Fields().Len(); i++ {
				if of := od.Fields().Get(i); of.Number() != fd.Number() {
					others = append(others, of)
				}
			}
			of := rapid.SampledFrom(others).Draw(t, "oneofother")
			if of.Message() != nil {
				child := dynamicpb.NewMessage(of.Message()) // empty apart from its required fields
				fillRequired(child, 2)
				cb, _ := refMarshal.Marshal(child)
				pieces = append(pieces, refwire.AppendLen(refwire.AppendKey(nil, int(of.Number()), 2), cb))
			} else {
				pieces = append(pieces, fieldOcc(int(of.Number()), of.Kind(), genScalar(t, of)))
			}
			st.oneofDup++
		}
		switch {
		case fd.IsMap():
			kfd, vfd := fd.MapKey(), fd.MapValue()
			v.Map().Range(func(k protoreflect.MapKey, mv protoreflect.Value) bool {
				keyPiece := fieldOcc(1, kfd.Kind(), k.Value())
				var valPiece []byte
				if vfd.Message() != nil {
					valPiece = refwire.AppendLen(refwire.AppendKey(nil, 2, 2), encodeVariant(t, mv.Message(), o, st, depth+1))
				} else {
					valPiece = fieldOcc(2, vfd.Kind(), mv)
				}
				shape := 0
				if o.mapShape {
					shape = rapid.SampledFrom([]int{0, 0, 0, 1, 1, 2, 3, 4, 5, 6, 7}).Draw(t, "mapshape")
				}
				var entry []byte
				switch shape {
				case 0:
					entry = append(append(entry, keyPiece...), valPiece...)
				case 1:
					entry = append(append(entry, valPiece...), keyPiece...)
					st.mapSwapped++
				case 2: // key omitted: the entry has the default key
					entry = append(entry, valPiece...)
					st.mapKeyOmitted++
				case 3: // value omitted: the entry has the default value
					entry = append(entry, keyPiece...)
					st.mapValOmitted++
				case 5: // an unknown field inside the entry (a conforming reader ignores it)
					entry = append(append(entry, keyPiece...), refwire.AppendVarint(refwire.AppendKey(nil, 3, 0), 7)...)
					entry = append(entry, valPiece...)
					st.mapExtra++
				case 7: // an unknown field FIRST in the entry, before key and value
					entry = append(entry, refwire.AppendLen(refwire.AppendKey(nil, 15, 2), []byte("zz"))...)
					entry = append(append(entry, keyPiece...), valPiece...)
					st.mapExtra++
				case 6: // the key occurs twice inside the entry: the last one wins
					entry = append(append(entry, fieldOcc(1, kfd.Kind(), genScalar(t, kfd))...), keyPiece...)
					entry = append(entry, valPiece...)
					st.mapExtra++
				case 4: // an earlier entry with the same key and the default value
					pieces = append(pieces, refwire.AppendLen(refwire.AppendKey(nil, num, 2), keyPiece))
					entry = append(append(entry, keyPiece...), valPiece...)
					st.mapDupKey++
				}
				pieces = append(pieces, refwire.AppendLen(refwire.AppendKey(nil, num, 2), entry))
				return true
			})
		case fd.IsList() && fd.Message() != nil:
			for i := 0; i < v.List().Len(); i++ {
				pieces = append(pieces, refwire.AppendLen(refwire.AppendKey(nil, num, 2), encodeVariant(t, v.List().Get(i).Message(), o, st, depth+1)))
			}
		case fd.IsList() && !isPackableKind(fd.Kind()):
			for i := 0; i < v.List().Len(); i++ {
				pieces = append(pieces, fieldOcc(num, fd.Kind(), v.List().Get(i)))
			}
		case fd.IsList():
			l := v.List()
			mode := 0 // schema default
			if fd.IsPacked() {
				mode = 1
			}
			if o.repack {
				mode = rapid.IntRange(0, 3).Draw(t, "packmode")
				if (mode == 1) != fd.IsPacked() || mode >= 2 {
					st.repacked++
				}
			}
			switch mode {
			case 0: // unpacked
				for i := 0; i < l.Len(); i++ {
					pieces = append(pieces, fieldOcc(num, fd.Kind(), l.Get(i)))
				}
			case 1: // one packed run
				var run []byte
				for i := 0; i < l.Len(); i++ {
					run = appendScalar(run, fd.Kind(), l.Get(i))
				}
				if l.Len() > 0 {
					pieces = append(pieces, refwire.AppendLen(refwire.AppendKey(nil, num, 2), run))
				}
			default: // several runs and single elements mixed
				var run []byte
				flush := func() {
					if run != nil {
						pieces = append(pieces, refwire.AppendLen(refwire.AppendKey(nil, num, 2), run))
						run = nil
					}
				}
				for i := 0; i < l.Len(); i++ {
					switch rapid.IntRange(0, 2).Draw(t, "runsplit") {
					case 0:
						flush()
						pieces = append(pieces, fieldOcc(num, fd.Kind(), l.Get(i)))
					case 1:
						flush()
						run = appendScalar([]byte{}, fd.Kind(), l.Get(i))
					default:
						if run == nil {
							run = []byte{}
						}
						run = appendScalar(run, fd.Kind(), l.Get(i))
					}
				}
				flush()
				st.splitRun++
			}
		case fd.Message() != nil:
			sub := v.Message()
			if o.splitMsg && depth < 3 && rapid.IntRange(0, 2).Draw(t, "splitmsg") == 0 {
				// two partial occurrences that a conforming reader merges
				body := encodeVariantPieces(t, sub, o, st, depth+1)
				cut := rapid.IntRange(0, len(body)).Draw(t, "cut")
				var a, b []byte
				for i, p := range body {
					if i < cut {
						a = append(a, p...)
					} else {
						b = append(b, p...)
					}
				}
				pieces = append(pieces, refwire.AppendLen(refwire.AppendKey(nil, num, 2), a), refwire.AppendLen(refwire.AppendKey(nil, num, 2), b))
				st.splitMsg++
			} else {
				pieces = append(pieces, refwire.AppendLen(refwire.AppendKey(nil, num, 2), encodeVariant(t, sub, o, st, depth+1)))
			}
		default:
			if o.dups && rapid.IntRange(0, 4).Draw(t, "dup") == 0 {
				// an earlier occurrence with another value: the last one wins
				pieces = append(pieces, fieldOcc(num, fd.Kind(), genScalar(t, fd)))
				st.dupScalar++
			}
			pieces = append(pieces, fieldOcc(num, fd.Kind(), v))
		}
		return true
	})
	if o.explicitDefaults {
		fs := md.Fields()
		for i := 0; i < fs.Len(); i++ {
			fd := fs.Get(i)
			if fd.HasPresence() || fd.IsList() || fd.IsMap() || fd.Message() != nil || m.Has(fd) {
				continue
			}
			if rapid.IntRange(0, 3).Draw(t, "expdef") == 0 {
				// at the FRONT: whatever the decoder does for this occurrence must not leak into the fields after it
				pieces = append([][]byte{fieldOcc(int(fd.Number()), fd.Kind(), fd.Default())}, pieces...)
				st.explicitDefault++
			}
		}
	}
	if u := m.GetUnknown(); len(u) > 0 {
		pieces = append(pieces, append([]byte{}, u...))
	}
	if o.unknowns {
		for i := rapid.SampledFrom([]int{0, 0, 1, 1, 2, 3}).Draw(t, "nunknown"); i > 0; i-- {
			pieces = append(pieces, genUnknownField(t, md))
			st.unknown++
		}
	}
	if o.permute && len(pieces) > 1 && rapid.Bool().Draw(t, "permute") {
		pieces = rapid.Permutation(pieces).Draw(t, "order")
		st.permuted++
	}
	var out []byte
	for _, p := range pieces {
		out = append(out, p...)
	}
	if out == nil {
		out = []byte{}
	}
	return out
}

// encodeVariantPieces is encodeVariant returning the separate top-level pieces (for message splitting).
func encodeVariantPieces(t *rapid.T, m protoreflect.Message, o varOpts, st *varStats, depth int) [][]byte {
	b := encodeVariant(t, m, o, st, depth)
	fs, err := refwire.Walk(b)
	if err != nil {
		panic("harness: variant encoder produced a malformed message")
	}
	var out [][]byte
	for _, f := range fs {
		out = append(out, b[f.KeyStart:f.End])
	}
	return out
}
