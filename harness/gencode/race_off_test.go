//go:build !race

package gencode

const raceEnabled = false
