package gencode

import (
	"bytes"
	"encoding/json"
	"fmt"
	"os"
	"reflect"
	"sort"
	"strings"
	"sync"
	"testing"

	"github.com/CrowdStrike/csproto"
	gogo "github.com/gogo/protobuf/proto"
	golang "github.com/golang/protobuf/proto"
	"google.golang.org/protobuf/proto"
	"google.golang.org/protobuf/reflect/protoreflect"
	"google.golang.org/protobuf/types/dynamicpb"
	"pgregory.net/rapid"

	"verif/harness/internal/ev"
)

// HOp is one step of a history on ONE live message.  Mutations copy a field (or a field of a child)
// from one of the pre-generated values, so the whole program is plain data.
type HOp struct {
	Kind  string `json:"kind"` // copyfield | copychild | truncate | size | marshal | marshalto | cssize | csmarshal | rtsize | rtmarshal | unmarshal | reset | clone
	Value int    `json:"value,omitempty"`
	Field int    `json:"field,omitempty"`
	Sub   int    `json:"sub,omitempty"`
}

// HCase: a type, a pool of values (canonical encodings) and the program.
type HCase struct {
	Type   string   `json:"type"`
	Values [][]byte `json:"values"`
	Prog   []HOp    `json:"prog"`
}

func fieldsOf(md protoreflect.MessageDescriptor) []protoreflect.FieldDescriptor {
	var out []protoreflect.FieldDescriptor
	for i := 0; i < md.Fields().Len(); i++ {
		out = append(out, md.Fields().Get(i))
	}
	return out
}

// copyFieldDyn makes dst.fd equal to src.fd (clearing it when src does not have it).
func copyFieldDyn(dst, src protoreflect.Message, fd protoreflect.FieldDescriptor) {
	if !src.Has(fd) {
		dst.Clear(fd)
		return
	}
	tmp := dynamicpb.NewMessage(src.Descriptor())
	tmp.Set(fd, src.Get(fd))
	b, _ := refMarshal.Marshal(tmp)
	one := decodeRef(src.Descriptor(), b)
	dst.Clear(fd)
	dst.Set(fd, one.Get(fd))
}

// applyMutation performs the same field store on the concrete message (through reflection, like user
// code assigning fields) and on the model.
func applyMutation(mt *MsgType, live any, model *dynamicpb.Message, src *dynamicpb.Message, op HOp) (changed bool) {
	fds := fieldsOf(mt.Desc)
	if len(fds) == 0 {
		return false
	}
	fd := fds[op.Field%len(fds)]
	before, _ := refMarshal.Marshal(model)
	cm := reflectOf(live)
	cfd := cm.Descriptor().Fields().ByNumber(fd.Number())
	if op.Kind == "copychild" && fd.Message() != nil && !fd.IsList() && !fd.IsMap() && model.Has(fd) && src.Has(fd) {
		// mutate a field of an existing child in place (its cached size was filled by an earlier parent Marshal)
		sub := fieldsOf(fd.Message())
		if len(sub) == 0 {
			return false
		}
		sfd := sub[op.Sub%len(sub)]
		copyFieldDyn(model.Mutable(fd).Message(), src.Get(fd).Message(), sfd)
		child := cm.Mutable(cfd).Message()
		ccfd := child.Descriptor().Fields().ByNumber(sfd.Number())
		child.Clear(ccfd)
		if src.Get(fd).Message().Has(sfd) {
			tmp := dynamicpb.NewMessage(fd.Message())
			tmp.Set(sfd, model.Get(fd).Message().Get(sfd))
			copyFromDyn(tmp, child, concreteOf(child))
		}
	} else {
		copyFieldDyn(model, src, fd)
		cm.Clear(cfd)
		if model.Has(fd) {
			tmp := dynamicpb.NewMessage(mt.Desc)
			tmp.Set(fd, model.Get(fd))
			copyFromDyn(tmp, cm, live)
		}
	}
	after, _ := refMarshal.Marshal(model)
	return len(before) != len(after)
}

type hstats struct {
	marshals, staleCandidates, steps int
	plainChildTouched                int
}

// runtimeTouchPlainChild calls the owning runtime's Size (or Marshal) on the k-th populated singular child of live
// whose Go type has no generated fast-marshal methods.  Reports whether there was one.
func runtimeTouchPlainChild(mt *MsgType, live any, k int, marshal bool) bool {
	return runtimeTouchPlainChildOf(mt, live, k, marshal) != nil
}

// runtimeTouchPlainChildOf is runtimeTouchPlainChild returning the child that was sized / marshaled (nil if none).
func runtimeTouchPlainChildOf(mt *MsgType, live any, k int, marshal bool) any {
	cm := reflectOf(live)
	var kids []any
	cm.Range(func(fd protoreflect.FieldDescriptor, v protoreflect.Value) bool {
		if fd.Message() != nil && !fd.IsList() && !fd.IsMap() {
			if conc := concreteOf(v.Message()); conc != nil {
				if _, fast := conc.(fastMsg); !fast {
					kids = append(kids, conc)
				}
			}
		}
		return true
	})
	if len(kids) == 0 {
		return nil
	}
	sort.Slice(kids, func(i, j int) bool { return fmt.Sprintf("%T", kids[i]) < fmt.Sprintf("%T", kids[j]) })
	child := kids[k%len(kids)]
	defer func() { _ = recover() }()
	switch mt.Info.Runtime {
	case "gv2", "gv1gen":
		if pm, ok := child.(proto.Message); ok {
			if marshal {
				_, _ = proto.Marshal(pm)
			} else {
				_ = proto.Size(pm)
			}
			return child
		}
	case "gogo":
		if pm, ok := child.(gogo.Message); ok {
			if marshal {
				_, _ = gogo.Marshal(pm)
			} else {
				_ = gogo.Size(pm)
			}
			return child
		}
	case "legacy":
		if pm, ok := child.(golang.Message); ok {
			if marshal {
				_, _ = golang.Marshal(pm)
			} else {
				_ = golang.Size(pm)
			}
			return child
		}
	}
	return nil
}

// plainChildTypes: the types with a singular field of a well-known type (no fast-marshal code for the child).
func plainChildTypes(ts []*MsgType) []*MsgType {
	var out []*MsgType
	for _, mt := range ts {
		for i := 0; i < mt.Desc.Fields().Len(); i++ {
			if fd := mt.Desc.Fields().Get(i); fd.Message() != nil && !fd.IsList() && !fd.IsMap() && strings.HasPrefix(string(fd.Message().FullName()), "google.protobuf.") {
				out = append(out, mt)
				break
			}
		}
	}
	return out
}

func runtimeSize(mt *MsgType, m any) {
	switch mt.Info.Runtime {
	case "gv2", "gv1gen":
		_ = proto.Size(m.(proto.Message))
	case "gogo":
		_ = gogo.Size(m.(gogo.Message))
	case "legacy":
		_ = golang.Size(m.(golang.Message))
	}
}

func runtimeMarshal(mt *MsgType, m any) {
	switch mt.Info.Runtime {
	case "gv2", "gv1gen":
		_, _ = proto.Marshal(m.(proto.Message))
	case "gogo":
		_, _ = gogo.Marshal(m.(gogo.Message))
	case "legacy":
		_, _ = golang.Marshal(m.(golang.Message))
	}
}

func oracleC09(c *HCase) (f *ev.Failure, st hstats) {
	loadCorpus()
	mt := typeByKey[c.Type]
	if mt == nil {
		return ev.Failf("C09/replay-type-missing", "type %s is not part of the generated corpus any more", c.Type), st
	}
	var vals []*dynamicpb.Message
	for _, b := range c.Values {
		vals = append(vals, decodeRef(mt.Desc, b))
	}
	live := mt.New()
	model := dynamicpb.NewMessage(mt.Desc)
	if len(vals) > 0 {
		FromDynamic(vals[0], live)
		model = decodeRef(mt.Desc, c.Values[0])
	}
	sizedBefore, lenChanged, rtTouched := false, false, false
	history := ""
	for i, op := range c.Prog {
		st.steps++
		history += op.Kind + " "
		stage := op.Kind
		var out []byte
		var err error
		checkOut := false
		fail := guard("C09", mt, stage, func() {
			fm := live.(fastMsg)
			switch op.Kind {
			case "copyfield", "copychild":
				if len(vals) > 0 && applyMutation(mt, live, model, vals[op.Value%len(vals)], op) && sizedBefore {
					lenChanged = true
				}
			case "truncate":
				// a repeated field emptied IN PLACE (m.F = m.F[:0]): non-nil, length 0 - the contents are "field unset"
				fds := fieldsOf(mt.Desc)
				if len(fds) > 0 {
					if fd := fds[op.Field%len(fds)]; fd.IsList() {
						had := model.Has(fd)
						model.Clear(fd)
						if truncateInPlace(live, int(fd.Number())) && had && sizedBefore {
							lenChanged = true
						}
					}
				}
			case "size":
				sizedBefore = true
				_ = fm.Size()
			case "cssize":
				sizedBefore = true
				_ = csproto.Size(live)
			case "rtsize":
				rtTouched = true
				sizedBefore = true
				runtimeSize(mt, live)
			case "rtmarshal":
				rtTouched = true
				sizedBefore = true
				runtimeMarshal(mt, live)
			case "rtsizechild":
				// the owning runtime sizes / marshals a CHILD that has no fast-marshal code of its own (a well-known type)
				// directly: the parent's own cache is not involved, the child's runtime-side cache is
				if runtimeTouchPlainChild(mt, live, op.Field, op.Sub%2 == 1) {
					st.plainChildTouched++
				}
			case "marshal":
				out, err = fm.Marshal()
				checkOut = true
			case "csmarshal":
				out, err = csproto.Marshal(live)
				checkOut = true
			case "marshalto":
				// the caller's buffer is its own business: here it is one that was used before (non-zero bytes)
				n := fm.Size()
				out = bytes.Repeat([]byte{0xA5}, n)
				err = fm.MarshalTo(out)
				checkOut = true
			case "unmarshal":
				if len(vals) > 0 {
					b := c.Values[op.Value%len(vals)]
					if uerr := fm.Unmarshal(append([]byte{}, b...)); uerr == nil {
						model = decodeRef(mt.Desc, b)
					} else {
						// rejecting a canonical encoding is C06's subject; resynchronise the model
						model = ToDynamic(live, mt.Desc)
					}
					sizedBefore, lenChanged, rtTouched = false, false, false
				}
			case "reset":
				csproto.Reset(live)
				model = dynamicpb.NewMessage(mt.Desc)
				sizedBefore, lenChanged, rtTouched = false, false, false
			case "cloneaside":
				// a copy is taken and put aside; the program goes on with the ORIGINAL (taking a copy reads the
				// message, it must not leave anything behind in it)
				_ = csproto.Clone(live)
				if mt.Info.Runtime == "legacy" {
					// golang/protobuf clones a pre-APIv2 message that has Marshal / Unmarshal methods by marshaling it:
					// for these types a Clone IS a Marshal by the runtime (recorded finding: the size it caches stays)
					rtTouched, sizedBefore = true, true
				}
			case "clone":
				live = csproto.Clone(live)
				sizedBefore, lenChanged, rtTouched = false, false, false // the copy starts with an empty cache
				// what a clone contains is the owning runtime's business (C11): continue from whatever it holds
				model = ToDynamic(live, mt.Desc)
			}
		})
		if fail != nil {
			// does a fresh copy of the same contents panic as well?  then it is not about the history
			if freshFails(mt, model) {
				return nil, st // C04's subject; the program cannot be continued meaningfully
			}
			switch {
			case lenChanged:
				// a Size/Marshal happened, then the encoded length changed: the size cached in the message is stale
				fail.Sig = sigOf("C09", "panic-stale-size", mt)
			case rtTouched:
				fail.Sig = sigOf("C09", "panic-after-runtime-size", mt)
			}
			fail.Detail += fmt.Sprintf(" at step %d of [%s]; a fresh copy of the same contents marshals fine", i, history)
			return fail, st
		}
		if checkOut {
			st.marshals++
			if sizedBefore && lenChanged {
				st.staleCandidates++
			}
			fresh := mt.New()
			FromDynamic(model, fresh)
			var want []byte
			var werr error
			if ff := guard("C09", mt, "fresh-marshal", func() { want, werr = fresh.(fastMsg).Marshal() }); ff != nil {
				sizedBefore = true
				continue // the fresh copy panics too: C04's subject
			}
			if (err == nil) != (werr == nil) {
				return ev.Failf(sigOf("C09", "error-differs-from-fresh-copy", mt), "step %d of [%s]: error %v, a fresh deep copy of the same contents gives %v", i, history, err, werr), st
			}
			if err == nil {
				same := bytes.Equal(out, want)
				if !same && hasMultiEntryMap(model) && len(out) == len(want) {
					a, b2 := dynamicpb.NewMessage(mt.Desc), dynamicpb.NewMessage(mt.Desc)
					same = refUnmarshal().Unmarshal(out, a) == nil && refUnmarshal().Unmarshal(want, b2) == nil && proto.Equal(a, b2)
				}
				if !same {
					kind := "bytes-differ-from-fresh-copy"
					switch {
					case lenChanged:
						kind = "stale-size"
					case rtTouched:
						kind = "differs-after-runtime-size"
					}
					return ev.Failf(sigOf("C09", kind, mt), "step %d of [%s]: %s returned %.80x (%d bytes), marshaling a fresh deep copy of the current contents %.160v returns %.80x (%d bytes)", i, history, op.Kind, out, len(out), model, want, len(want)), st
				}
			}
			sizedBefore = true
		}
	}
	return nil, st
}

// msgMapTypes: the types that have a map field with message values.
func msgMapTypes(ts []*MsgType) []*MsgType {
	var out []*MsgType
	for _, mt := range ts {
		for i := 0; i < mt.Desc.Fields().Len(); i++ {
			if fd := mt.Desc.Fields().Get(i); fd.IsMap() && fd.MapValue().Message() != nil {
				out = append(out, mt)
				break
			}
		}
	}
	return out
}

// truncateInPlace sets the Go slice behind repeated field num to a non-nil slice of length 0 (keeping its backing
// array when it has one); reports whether the field was found.
func truncateInPlace(m any, num int) bool {
	v := reflect.ValueOf(m).Elem()
	tt := v.Type()
	for i := 0; i < v.NumField(); i++ {
		tag := tt.Field(i).Tag.Get("protobuf")
		parts := strings.Split(tag, ",")
		if len(parts) < 2 || parts[1] != fmt.Sprint(num) || v.Field(i).Kind() != reflect.Slice {
			continue
		}
		f := v.Field(i)
		if f.IsNil() {
			f.Set(reflect.MakeSlice(f.Type(), 0, 4))
		} else {
			f.Set(f.Slice(0, 0))
		}
		return true
	}
	return false
}

func freshFails(mt *MsgType, model *dynamicpb.Message) bool {
	fresh := mt.New()
	FromDynamic(model, fresh)
	return guard("C09", mt, "fresh", func() { _, _ = fresh.(fastMsg).Marshal() }) != nil
}

var c09KindsPlainChild = []string{"copychild", "copychild", "copychild", "copyfield", "rtsizechild", "rtsizechild", "rtsizechild", "marshal", "marshalto", "csmarshal", "size", "unmarshal", "reset"}

var c09Kinds = []string{"cloneaside", "rtsizechild", "copyfield", "copyfield", "copyfield", "copychild", "copychild", "truncate", "size", "marshal", "marshal", "marshalto", "cssize", "csmarshal", "rtsize", "rtmarshal", "unmarshal", "reset", "clone"}

func TestC09(t *testing.T) {
	rec := ev.New("C09", "case = one live message of a generated type + a pool of 2..4 generated values + a program of <= 25 ops over {copy a field (or a field of an existing child) from a pool value = set / clear / grow / shrink through plain reflection stores, empty a repeated field in place (non-nil slice of length 0), Size, Marshal, MarshalTo, csproto.Size, csproto.Marshal, the owning runtime's own Size and Marshal - on the message, or directly on a child of a well-known type (1 in 8 programs target types with such a child) -, Unmarshal(pool value), Reset, Clone (continue on the clone), Clone (put the copy aside, continue on the original)}; invariant after every Marshal/MarshalTo/csproto.Marshal: the bytes equal Marshal of a FRESH message populated from the model of the current contents (up to map-entry order when a map has >= 2 entries), no op panics; additionally <= 14-op histories through csproto on a plain gogo message generated with gogo's sizer but without its marshaler plug-in (gogo's test.NinOptStruct: Size() method + table-driven XXX_Marshal reading nested size caches), oracle = gogo's Marshal of a fresh deep copy; the concurrent clause runs in a -race binary (TestC09Race); non-trivial = a Marshal* preceded by a Size/Marshal (own, csproto's or the runtime's) and a later mutation that changed the encoded length; distinct by program")
	defer rec.Write()
	useRecorder(rec)
	defer func() { t.Log(rec.Summary()); fmt.Print(rec.SurveyReport()) }()
	requireUsable(t, fmTypes(nil), 300)
	mine := shardTypes(fmTypes(nil))
	if len(mine) == 0 {
		return
	}
	withPlain := plainChildTypes(mine)
	if shard, _ := ev.Shard(); shard == 0 {
		c09GogoHistories(t, rec, ev.N(3000, 60000)*func() int { _, n := ev.Shard(); return n }())
	}
	ev.Rapid(t, ev.N(16000, 400000), 9, func(rt *rapid.T) {
		mt := rapid.SampledFrom(mine).Draw(rt, "type")
		kinds := c09Kinds
		if len(withPlain) > 0 && rapid.IntRange(0, 7).Draw(rt, "plainchild") == 0 {
			// a type with a well-known-type child, and a program that favours touching that child directly
			mt = rapid.SampledFrom(withPlain).Draw(rt, "plainchildtype")
			kinds = c09KindsPlainChild
		}
		c := &HCase{Type: mt.Key()}
		for i := rapid.IntRange(2, 4).Draw(rt, "nvalues"); i > 0; i-- {
			v, b := canon(genDyn(rt, mt.Desc, 2, genOpts{runtime: mt.Info.Runtime, requiredProb: 10, maxMap: 2}))
			if rapid.IntRange(0, 2).Draw(rt, "withunknown") == 0 {
				// a value that carries unknown fields (as left behind by Unmarshal of newer-schema data)
				var st varStats
				_, b = canon(decodeRef(mt.Desc, encodeVariant(rt, v, varOpts{unknowns: true}, &st, 0)))
			}
			c.Values = append(c.Values, b)
		}
		for i := rapid.IntRange(2, 25).Draw(rt, "nops"); i > 0; i-- {
			c.Prog = append(c.Prog, HOp{Kind: rapid.SampledFrom(kinds).Draw(rt, "kind"), Value: rapid.IntRange(0, 3).Draw(rt, "value"), Field: rapid.IntRange(0, 40).Draw(rt, "field"), Sub: rapid.IntRange(0, 8).Draw(rt, "sub")})
		}
		f, st := oracleC09(c)
		rec.Eval(int64(st.steps))
		rec.Class("variant/" + mt.Info.Variant)
		rec.ClassN("marshal-ops", int64(st.marshals))
		rec.ClassN("runtime-sized-a-plain-child-directly", int64(st.plainChildTouched))
		if st.staleCandidates > 0 {
			rec.Class("program/marshal-after-size-and-length-changing-mutation")
			cj, _ := json.Marshal(c)
			rec.NonTrivial(ev.FP(cj))
			rec.Sample(mt.Info.Variant+"/"+mt.Info.Feature, map[string]any{"type": c.Type, "prog": c.Prog, "values_hex": hexAll(c.Values)})
		}
		rec.Check(rt, "hcase", c, f)
	})
}

func hexAll(bs [][]byte) []string {
	out := make([]string, len(bs))
	for i, b := range bs {
		out[i] = fmt.Sprintf("%.80x", b)
	}
	return out
}

// TestC09Race: concurrent Size/Marshal/MarshalTo on a message nobody mutates (fresh cache at start,
// so first-use initialisation races are exercised).  Meant to run in a -race binary.
func TestC09Race(t *testing.T) {
	if v := os.Getenv(envC09Child); v != "" {
		loadCorpus()
		c09ColdChild(t, v)
		return
	}
	rec := ev.New("C09", "concurrent clause: N in {2,8,32} goroutines released together call Size / Marshal / MarshalTo / csproto.Marshal on ONE unmutated message whose size cache is empty at the start (1 in 3: a message-typed map value is a nil pointer); every output must equal the bytes of a fresh copy; the binary is built with -race; cold-start rounds: 6 (thorough 60) fresh processes in which, for a third of the types that have extensions or message-typed children, the FIRST Size / Marshal / MarshalTo / csproto.Marshal calls of the process are made by 6 goroutines on 3 messages at once (nothing sized, classified or cached before), outputs compared with a fresh copy afterwards")
	defer rec.Write()
	useRecorder(rec)
	defer func() { t.Log(rec.Summary()) }()
	rec.Extra("race_detector", raceEnabled)
	// every generator flavour (single file / file per message, API v1 / v2, unsafe decoding): the size-cache code
	// exists once per template
	mine := shardTypes(fmTypes(nil))
	if len(mine) == 0 {
		return
	}
	byVariant := map[string][]*MsgType{}
	var variants []string
	for _, mt := range mine {
		if byVariant[mt.Info.Variant] == nil {
			variants = append(variants, mt.Info.Variant)
		}
		byVariant[mt.Info.Variant] = append(byVariant[mt.Info.Variant], mt)
	}
	sort.Strings(variants)
	ev.Rapid(t, ev.N(600, 12000), 99, func(rt *rapid.T) {
		variant := rapid.SampledFrom(variants).Draw(rt, "variant")
		mt := rapid.SampledFrom(byVariant[variant]).Draw(rt, "type")
		if withMsgMap := msgMapTypes(byVariant[variant]); len(withMsgMap) > 0 && rapid.IntRange(0, 3).Draw(rt, "msgmap") == 0 {
			mt = rapid.SampledFrom(withMsgMap).Draw(rt, "msgmaptype") // a type with a map of messages (nil values possible)
		}
		rec.Class("variant/" + variant)
		dv := genDyn(rt, mt.Desc, 2, genOpts{runtime: mt.Info.Runtime, requiredProb: 10, maxMap: 3})
		nilValue := rapid.IntRange(0, 2).Draw(rt, "nilmapvalue") == 0
		if nilValue {
			// make sure the maps of messages are not empty
			for i := 0; i < mt.Desc.Fields().Len(); i++ {
				if fd := mt.Desc.Fields().Get(i); fd.IsMap() && fd.MapValue().Message() != nil && !dv.Has(fd) {
					mp := dv.NewField(fd).Map()
					sub := dynamicpb.NewMessage(fd.MapValue().Message())
					fillRequired(sub, 1)
					mp.Set(boundaryScalars(fd.MapKey().Kind())[1].MapKey(), protoreflect.ValueOfMessage(sub))
					dv.Set(fd, protoreflect.ValueOfMap(mp))
				}
			}
		}
		_, b := canon(dv)
		c := &GCase{Type: mt.Key(), Value: b, NilMapValue: nilValue}
		n := rapid.SampledFrom([]int{2, 8, 32}).Draw(rt, "goroutines")
		iters := rapid.IntRange(1, 20).Draw(rt, "iters")
		rec.Journal("racecase", c)
		f := raceRound(c, n, iters)
		rec.Eval(int64(n * iters))
		rec.NonTrivialEnum(int64(n * iters))
		rec.Class(fmt.Sprintf("goroutines=%d", n))
		rec.Sample(mt.Info.Variant, map[string]any{"type": c.Type, "goroutines": n, "iterations": iters, "value_hex": fmt.Sprintf("%.80x", b)})
		rec.Check(rt, "racecase", c, f)
	})
	rec.JournalClear()
	c09ColdRounds(t, rec)
}

func raceRound(c *GCase, n, iters int) *ev.Failure {
	mt, dyn, m := c.build()
	if freshFails(mt, dyn) {
		return nil // C04's subject
	}
	_, _, twin := c.build()
	want, werr := twin.(fastMsg).Marshal()
	if werr != nil {
		return nil
	}
	var wg sync.WaitGroup
	start := make(chan struct{})
	var mu sync.Mutex
	var fail *ev.Failure
	for g := 0; g < n; g++ {
		g := g
		wg.Add(1)
		go func() {
			defer wg.Done()
			defer func() {
				if r := recover(); r != nil {
					mu.Lock()
					fail = ev.Failf(sigOf("C09", "panic-concurrent", mt), "goroutine %d panicked: %v", g, r)
					mu.Unlock()
				}
			}()
			fm := m.(fastMsg)
			<-start
			for i := 0; i < iters; i++ {
				var out []byte
				var err error
				switch (g + i) % 4 {
				case 0:
					out, err = fm.Marshal()
				case 1:
					out = make([]byte, fm.Size())
					err = fm.MarshalTo(out)
				case 2:
					out, err = csproto.Marshal(m)
				default:
					if fm.Size() != len(want) {
						err = fmt.Errorf("Size()=%d, expected %d", fm.Size(), len(want))
					}
					out = want
				}
				if err != nil || (!bytes.Equal(out, want) && !hasMultiEntryMap(dyn)) {
					mu.Lock()
					fail = ev.Failf(sigOf("C09", "concurrent-output-differs", mt), "goroutine %d iteration %d: %v %.60x, expected %.60x", g, i, err, out, want)
					mu.Unlock()
					return
				}
			}
		}()
	}
	close(start)
	wg.Wait()
	return fail
}
