package gencode

import (
	"bytes"
	"encoding/json"
	"fmt"
	"reflect"
	"sort"
	"strings"
	"testing"

	"github.com/CrowdStrike/csproto"
	gogojson "github.com/gogo/protobuf/jsonpb"
	gogo "github.com/gogo/protobuf/proto"
	gogotypes "github.com/gogo/protobuf/types"
	"github.com/golang/protobuf/jsonpb"
	golang "github.com/golang/protobuf/proto"
	"google.golang.org/protobuf/encoding/protojson"
	"google.golang.org/protobuf/proto"
	"google.golang.org/protobuf/reflect/protoreflect"
	"google.golang.org/protobuf/types/dynamicpb"
	"google.golang.org/protobuf/types/known/structpb"
	"google.golang.org/protobuf/types/known/timestamppb"
	"google.golang.org/protobuf/types/known/wrapperspb"
	"pgregory.net/rapid"

	"verif/harness/internal/ev"
)

// JCase: a type + value + marshal options.
type JCase struct {
	Type        string `json:"type"`
	Value       []byte `json:"value"`
	Indent      string `json:"indent"`
	EnumNumbers bool   `json:"enum_numbers"`
	ZeroValues  bool   `json:"zero_values"`
	// unmarshal-side probes
	InjectUnknown bool `json:"inject_unknown"`
	AllowUnknown  bool `json:"allow_unknown"`
	DropRequired  bool `json:"drop_required"`
	AllowPartial  bool `json:"allow_partial"`
	// AllOpts: every adapter call of the case gets ALL five options (the two adapters share one option type), in
	// the Order-th permutation; an option's effect must not depend on which other options accompany it, or where
	AllOpts bool `json:"all_opts,omitempty"`
	Order   int  `json:"order,omitempty"`
	// Overridden (with AllOpts): the list starts with every option set to the OPPOSITE value (another indent string);
	// each option sets its value, so the later occurrence is the one in effect
	Overridden bool `json:"overridden,omitempty"`
	// a MarshalJSON call that fails, made through the adapter right before the case's own (0 = none)
	Prelude int `json:"prelude,omitempty"`
	// > 0: instead of Value, a chain of that many messages nested through the type's first self-recursive field
	Deep int `json:"deep,omitempty"`
}

// optList: the options for one adapter call - `own` alone, or all five in the case's permutation.
func (c *JCase) optList(own ...csproto.JSONOption) []csproto.JSONOption {
	if !c.AllOpts {
		return own
	}
	all := []csproto.JSONOption{csproto.JSONIndent(c.Indent), csproto.JSONUseEnumNumbers(c.EnumNumbers), csproto.JSONIncludeZeroValues(c.ZeroValues),
		csproto.JSONAllowUnknownFields(c.AllowUnknown), csproto.JSONAllowPartialMessages(c.AllowPartial)}
	var out []csproto.JSONOption
	if c.Overridden {
		other := "   "
		if c.Indent == other {
			other = "\t\t"
		}
		out = append(out, csproto.JSONIndent(other), csproto.JSONUseEnumNumbers(!c.EnumNumbers), csproto.JSONIncludeZeroValues(!c.ZeroValues),
			csproto.JSONAllowUnknownFields(!c.AllowUnknown), csproto.JSONAllowPartialMessages(!c.AllowPartial))
	}
	k := c.Order
	if k < 0 {
		k = -k
	}
	for len(all) > 0 {
		i := k % len(all)
		k /= len(all)
		out = append(out, all[i])
		all = append(all[:i], all[i+1:]...)
	}
	return out
}

// deepChain builds a message nested depth levels through the first singular field whose type is the message itself.
func deepChain(md protoreflect.MessageDescriptor, depth int) *dynamicpb.Message {
	var rec protoreflect.FieldDescriptor
	for i := 0; i < md.Fields().Len(); i++ {
		if fd := md.Fields().Get(i); fd.Message() == md && !fd.IsList() && !fd.IsMap() && fd.ContainingOneof() == nil {
			rec = fd
			break
		}
	}
	if rec == nil {
		return nil
	}
	root := dynamicpb.NewMessage(md)
	fillRequired(root, 2)
	cur := root
	for i := 0; i < depth; i++ {
		next := dynamicpb.NewMessage(md)
		fillRequired(next, 2)
		cur.Set(rec, protoreflect.ValueOfMessage(next))
		cur = next
	}
	fillOne(cur)
	return root
}

// jsonPreludes: messages the JSON writers of the three runtimes refuse, some of them only after part of the
// output has been produced.  What the refused call returns is not examined (the property is silent about
// it); the call after it must be unaffected.
var jsonPreludes = []struct {
	name string
	file string
	msg  string
	mk   func(md protoreflect.MessageDescriptor) *dynamicpb.Message
}{
	{}, // 0: none
	{"timestamp-out-of-range", "wkt", "Event", func(md protoreflect.MessageDescriptor) *dynamicpb.Message {
		m := dynamicpb.NewMessage(md)
		m.Set(md.Fields().ByName("id"), protoreflect.ValueOfString("refused"))
		ts := m.Mutable(md.Fields().ByName("at")).Message()
		ts.Set(ts.Descriptor().Fields().ByName("seconds"), protoreflect.ValueOfInt64(1e13))
		ts.Set(ts.Descriptor().Fields().ByName("nanos"), protoreflect.ValueOfInt32(-5))
		return m
	}},
	{"duration-out-of-range", "wkt", "Event", func(md protoreflect.MessageDescriptor) *dynamicpb.Message {
		m := dynamicpb.NewMessage(md)
		m.Set(md.Fields().ByName("id"), protoreflect.ValueOfString("refused"))
		d := m.Mutable(md.Fields().ByName("took")).Message()
		d.Set(d.Descriptor().Fields().ByName("seconds"), protoreflect.ValueOfInt64(4e12))
		d.Set(d.Descriptor().Fields().ByName("nanos"), protoreflect.ValueOfInt32(-1e9-1))
		return m
	}},
	{"history-entry-out-of-range", "wkt", "Event", func(md protoreflect.MessageDescriptor) *dynamicpb.Message {
		m := dynamicpb.NewMessage(md)
		m.Set(md.Fields().ByName("id"), protoreflect.ValueOfString("refused"))
		l := m.Mutable(md.Fields().ByName("history")).List()
		ok := l.NewElement()
		ok.Message().Set(ok.Message().Descriptor().Fields().ByName("seconds"), protoreflect.ValueOfInt64(1))
		l.Append(ok)
		bad := l.NewElement()
		bad.Message().Set(bad.Message().Descriptor().Fields().ByName("seconds"), protoreflect.ValueOfInt64(-1e13))
		l.Append(bad)
		return m
	}},
	{"required-field-missing-in-child", "required", "InField", func(md protoreflect.MessageDescriptor) *dynamicpb.Message {
		m := dynamicpb.NewMessage(md)
		m.Set(md.Fields().ByName("x"), protoreflect.ValueOfInt32(7))
		m.Mutable(md.Fields().ByName("child")) // present, its required field unset
		return m
	}},
}

// runPrelude performs prelude k on a message of the same variant as mt; reports whether the call was refused.
func runPrelude(k int, mt *MsgType) (refused bool) {
	p := jsonPreludes[k]
	pmt := typeByKey[mt.Info.Variant+"/"+p.file+"/"+p.msg]
	if pmt == nil {
		return false
	}
	defer func() { _ = recover() }()
	m := pmt.New()
	FromDynamic(p.mk(pmt.Desc), m)
	_, err := csproto.JSONMarshaler(m).MarshalJSON()
	return err != nil
}

func jsonSig(kind string, mt *MsgType) string {
	return "C18/" + kind + "/" + mt.Info.Runtime + "/" + mt.Info.File + "/" + mt.Short()
}

// the owning runtime's own JSON decoder
func runtimeJSONUnmarshal(rt string, data []byte, m any) error {
	switch rt {
	case "gv2", "gv1gen":
		return protojson.Unmarshal(data, m.(proto.Message))
	case "gogo":
		return gogojson.Unmarshal(bytes.NewReader(data), m.(gogo.Message))
	case "legacy":
		return jsonpb.Unmarshal(bytes.NewReader(data), m.(golang.Message))
	}
	panic("runtime " + rt)
}

func oracleC18(c *JCase) (fail *ev.Failure) {
	loadCorpus()
	mt := typeByKey[c.Type]
	if mt == nil {
		return ev.Failf("C18/replay-type-missing", "type %s is not part of the generated corpus any more", c.Type)
	}
	defer func() {
		if r := recover(); r != nil {
			fail = ev.Failf(jsonSig("panic", mt), "panic: %v", r)
		}
	}()
	rt := runtimes[mt.Info.Runtime]
	dyn := decodeRef(mt.Desc, c.Value)
	if c.Deep > 0 {
		if dyn = deepChain(mt.Desc, c.Deep); dyn == nil {
			return nil
		}
	}
	m := mt.New()
	FromDynamic(dyn, m)
	if c.Prelude > 0 && c.Prelude < len(jsonPreludes) {
		runPrelude(c.Prelude, mt)
	}
	opts := c.optList(csproto.JSONIndent(c.Indent), csproto.JSONUseEnumNumbers(c.EnumNumbers), csproto.JSONIncludeZeroValues(c.ZeroValues))
	out, err := csproto.JSONMarshaler(m, opts...).MarshalJSON()
	if err != nil {
		return ev.Failf(jsonSig("marshal-error", mt), "JSONMarshaler: %v", err)
	}
	// the returned bytes belong to the caller: a later marshal (other message, other options) must not change them
	saved := append([]byte{}, out...)
	if other, ok := m.(interface{ Reset() }); ok {
		twin := mt.New()
		FromDynamic(dyn, twin)
		_, _ = csproto.JSONMarshaler(twin, csproto.JSONIndent("  "), csproto.JSONIncludeZeroValues(!c.ZeroValues)).MarshalJSON()
		_, _ = csproto.JSONMarshaler(mt.New()).MarshalJSON()
		_ = other
	}
	if !bytes.Equal(out, saved) {
		return ev.Failf(jsonSig("output-changed-by-later-marshal", mt), "the bytes returned by MarshalJSON changed after two further MarshalJSON calls: %.120q -> %.120q", saved, out)
	}
	if !json.Valid(out) {
		return ev.Failf(jsonSig("invalid-json", mt), "output is not well-formed JSON: %.200s", out)
	}
	// round trip through the adapter
	back := mt.New()
	if err := csproto.JSONUnmarshaler(back, c.optList()...).UnmarshalJSON(out); err != nil {
		return ev.Failf(jsonSig("adapter-rejects-own-output", mt), "JSONUnmarshaler rejects the adapter's output %.200s: %v", out, err)
	}
	if !rt.equal(back, m) {
		return ev.Failf(jsonSig("round-trip-differs", mt), "JSON %.200s decodes to %v, original %v", out, back, m)
	}
	// the owning runtime's own JSON decoder
	back2 := mt.New()
	if err := runtimeJSONUnmarshal(mt.Info.Runtime, out, back2); err != nil {
		return ev.Failf(jsonSig("runtime-decoder-rejects-output", mt), "%s's JSON decoder rejects %.200s: %v", rt.name, out, err)
	}
	if !rt.equal(back2, m) {
		return ev.Failf(jsonSig("runtime-decoder-differs", mt), "%s's JSON decoder reads %.200s as %v, original %v", rt.name, out, back2, m)
	}
	// structural option probes
	text := string(out)
	if c.Indent == "" {
		if strings.Contains(text, "\n") {
			return ev.Failf(jsonSig("indent-not-honoured", mt), "no indentation requested but the output is multi-line: %.200q", text)
		}
	} else if strings.Count(text, "\n") > 0 || len(dynFields(dyn)) > 0 {
		lines := strings.Split(strings.TrimRight(text, "\n"), "\n")
		if len(lines) < 2 && len(dynFields(dyn)) > 0 {
			return ev.Failf(jsonSig("indent-not-honoured", mt), "indent %q requested but the output is a single line: %.200q", c.Indent, text)
		}
		for i, ln := range lines {
			if i == 0 || i == len(lines)-1 || strings.TrimSpace(ln) == "" {
				continue // (the V1 JSON writers put a blank line into empty objects)
			}
			if !strings.HasPrefix(ln, c.Indent) {
				return ev.Failf(jsonSig("indent-not-honoured", mt), "indent %q requested but line %d is %q", c.Indent, i, ln)
			}
			rest := ln
			for strings.HasPrefix(rest, c.Indent) {
				rest = rest[len(c.Indent):]
			}
			if len(rest) > 0 && (rest[0] == ' ' || rest[0] == '\t') {
				return ev.Failf(jsonSig("indent-not-honoured", mt), "line %d %q is not indented by a multiple of %q", i, ln, c.Indent)
			}
		}
	}
	var parsed map[string]any
	if err := json.Unmarshal(out, &parsed); err != nil {
		return ev.Failf(jsonSig("invalid-json", mt), "not a JSON object: %v", err)
	}
	fs := mt.Desc.Fields()
	for i := 0; i < fs.Len(); i++ {
		fd := fs.Get(i)
		key := fd.JSONName()
		val, present := parsed[key]
		if !present {
			val, present = parsed[string(fd.Name())]
		}
		// enum numbers instead of names
		if fd.Kind() == protoreflect.EnumKind && !fd.IsList() && !fd.IsMap() && dyn.Has(fd) && present {
			_, isNum := val.(float64)
			if isNum != c.EnumNumbers {
				return ev.Failf(jsonSig("enum-numbers-not-honoured", mt), "UseEnumNumbers=%v but enum field %s is rendered as %v (%T)", c.EnumNumbers, fd.Name(), val, val)
			}
		}
		// zero-valued implicit-presence scalars
		if !fd.HasPresence() && !fd.IsList() && !fd.IsMap() && !dyn.Has(fd) {
			if present != c.ZeroValues {
				return ev.Failf(jsonSig("zero-values-not-honoured", mt), "IncludeZeroValues=%v but zero-valued field %s present=%v in %.200s", c.ZeroValues, fd.Name(), present, text)
			}
		}
	}
	// unmarshal options
	if c.InjectUnknown {
		withUnknown := injectKey(out)
		dst := mt.New()
		err := csproto.JSONUnmarshaler(dst, c.optList(csproto.JSONAllowUnknownFields(c.AllowUnknown))...).UnmarshalJSON(withUnknown)
		if c.AllowUnknown && err != nil {
			return ev.Failf(jsonSig("allow-unknown-not-honoured", mt), "AllowUnknownFields=true but %.200s is rejected: %v", withUnknown, err)
		}
		if !c.AllowUnknown && err == nil {
			return ev.Failf(jsonSig("allow-unknown-not-honoured", mt), "AllowUnknownFields=false but the unknown key in %.200s is accepted", withUnknown)
		}
		if err == nil && !rt.equal(dst, m) {
			return ev.Failf(jsonSig("round-trip-differs", mt), "with an ignored unknown key the message decodes to %v, original %v", dst, m)
		}
	}
	if c.DropRequired && (mt.Info.Runtime == "gv2" || mt.Info.Runtime == "gv1gen") {
		// documented for Google V2 messages only; the required field may be the message's own or one of a
		// (possibly imported proto2) child reached through singular message fields
		if path := requiredPath(dyn, 0); path != nil {
			obj := any(parsed)
			for i, fd := range path {
				mo, ok := obj.(map[string]any)
				if !ok {
					obj = nil
					break
				}
				key := fd.JSONName()
				if _, has := mo[key]; !has {
					key = string(fd.Name())
				}
				if i == len(path)-1 {
					delete(mo, key)
				} else {
					obj = mo[key]
				}
			}
			if obj != nil {
				req := path[len(path)-1]
				partial, _ := json.Marshal(parsed)
				dst := mt.New()
				err := csproto.JSONUnmarshaler(dst, c.optList(csproto.JSONAllowPartialMessages(c.AllowPartial))...).UnmarshalJSON(partial)
				depth := "own"
				if len(path) > 1 {
					depth = "child"
				}
				if c.AllowPartial && err != nil {
					return ev.Failf(jsonSig("allow-partial-not-honoured/"+depth, mt), "AllowPartialMessages=true but %.200s is rejected: %v", partial, err)
				}
				if !c.AllowPartial && err == nil {
					return ev.Failf(jsonSig("allow-partial-not-honoured/"+depth, mt), "AllowPartialMessages=false but %.200s (required field %s missing) is accepted", partial, req.FullName())
				}
			}
		}
	}
	return nil
}

func dynFields(m protoreflect.Message) []protoreflect.FieldDescriptor {
	var out []protoreflect.FieldDescriptor
	m.Range(func(fd protoreflect.FieldDescriptor, _ protoreflect.Value) bool { out = append(out, fd); return true })
	return out
}

// requiredPath: the fields leading from m to a required scalar field that is set - m's own, or one in a
// populated singular message field (depth <= 3).
func requiredPath(m protoreflect.Message, depth int) []protoreflect.FieldDescriptor {
	fs := m.Descriptor().Fields()
	for i := 0; i < fs.Len(); i++ {
		if fd := fs.Get(i); fd.Cardinality() == protoreflect.Required && m.Has(fd) {
			return []protoreflect.FieldDescriptor{fd}
		}
	}
	if depth >= 3 {
		return nil
	}
	for i := 0; i < fs.Len(); i++ {
		fd := fs.Get(i)
		if fd.Message() == nil || fd.IsList() || fd.IsMap() || !m.Has(fd) {
			continue
		}
		if sub := requiredPath(m.Get(fd).Message(), depth+1); sub != nil {
			return append([]protoreflect.FieldDescriptor{fd}, sub...)
		}
	}
	return nil
}

func firstRequired(md protoreflect.MessageDescriptor) protoreflect.FieldDescriptor {
	for i := 0; i < md.Fields().Len(); i++ {
		if fd := md.Fields().Get(i); fd.Cardinality() == protoreflect.Required {
			return fd
		}
	}
	return nil
}

// injectKey adds an unknown key to a JSON object.
func injectKey(obj []byte) []byte {
	s := strings.TrimSpace(string(obj))
	body := strings.TrimSpace(s[1 : len(s)-1])
	if body == "" {
		return []byte(`{"zzNotAField": 1}`)
	}
	return []byte(`{"zzNotAField": 1, ` + body + `}`)
}

func jsonNilProbes() *ev.Failure {
	// a nil message marshals to nothing; unmarshaling into nil is an error
	probes := map[string]any{"untyped-nil": nil, "typed-nil-gv2": (*durationpbAlias)(nil),
		// well-known types that implement json.Marshaler / Unmarshaler themselves
		"typed-nil-structpb-Struct": (*structpb.Struct)(nil), "typed-nil-structpb-ListValue": (*structpb.ListValue)(nil), "typed-nil-structpb-Value": (*structpb.Value)(nil),
		"typed-nil-timestamppb": (*timestamppb.Timestamp)(nil), "typed-nil-wrapperspb": (*wrapperspb.StringValue)(nil),
		"typed-nil-gogo-Struct": (*gogotypes.Struct)(nil), "typed-nil-gogo-Timestamp": (*gogotypes.Timestamp)(nil), "typed-nil-gogo-Value": (*gogotypes.Value)(nil)}
	loadCorpus()
	seen := map[string]bool{}
	for _, mt := range jsonTypes() { // one typed nil per (variant, file)
		k := mt.Info.Variant + "/" + mt.Info.File
		if !seen[k] {
			seen[k] = true
			probes["typed-nil-"+mt.Key()] = reflect.Zero(reflect.TypeOf(mt.New())).Interface()
		}
	}
	for name, v := range probes {
		out, err := csproto.JSONMarshaler(v).MarshalJSON()
		if out != nil || err != nil {
			return ev.Failf("C18/nil-marshal/"+name, "JSONMarshaler(nil).MarshalJSON() = %q, %v; documented: nil, nil", out, err)
		}
	}
	var fail *ev.Failure
	func() {
		defer func() {
			if r := recover(); r != nil {
				fail = ev.Failf("C18/nil-unmarshal-panics", "JSONUnmarshaler(nil).UnmarshalJSON panicked: %v", r)
			}
		}()
		if err := csproto.JSONUnmarshaler(nil).UnmarshalJSON([]byte("{}")); err == nil {
			fail = ev.Failf("C18/nil-unmarshal/untyped-nil", "unmarshaling into nil returned no error")
		}
		if err := csproto.JSONUnmarshaler((*durationpbAlias)(nil)).UnmarshalJSON([]byte(`"1s"`)); err == nil {
			fail = ev.Failf("C18/nil-unmarshal/typed-nil", "unmarshaling into a typed nil returned no error")
		}
	}()
	if fail != nil {
		return fail
	}
	// every typed nil of the marshal probes, with no option, one option and all options
	optSets := map[string][]csproto.JSONOption{"no-options": nil, "one-option": {csproto.JSONAllowUnknownFields(true)},
		"all-options": {csproto.JSONIndent(" "), csproto.JSONUseEnumNumbers(true), csproto.JSONIncludeZeroValues(true), csproto.JSONAllowUnknownFields(false), csproto.JSONAllowPartialMessages(true)}}
	for name, v := range probes {
		for on, opts := range optSets {
			for _, doc := range []string{"{}", "null", `"x"`, "[]"} {
				func() {
					defer func() {
						if r := recover(); r != nil {
							fail = ev.Failf("C18/nil-unmarshal-panics/"+name+"/"+on, "JSONUnmarshaler(%s, %s).UnmarshalJSON(%s) panicked: %v", name, on, doc, r)
						}
					}()
					if err := csproto.JSONUnmarshaler(v, opts...).UnmarshalJSON([]byte(doc)); err == nil {
						fail = ev.Failf("C18/nil-unmarshal/"+name+"/"+on, "unmarshaling %s into %s (%s) returned no error", doc, name, on)
					}
				}()
				if fail != nil {
					return fail
				}
			}
		}
	}
	return fail
}

func jsonTypes() []*MsgType {
	loadCorpus()
	var out []*MsgType
	for _, mt := range allTypes {
		switch mt.Info.Variant {
		case "gv2plain", "gogoplain", "legacyplain", "gv2s", "gogos", "legacys":
		default:
			continue
		}
		if !(mt.Info.Plain || mt.Info.Usable) || strings.HasPrefix(mt.Info.File, "ext") {
			continue // extensions are not part of the common JSON option surface
		}
		out = append(out, mt)
	}
	return out
}

const ruleC18 = "case = (message type of the corpus for gogo / Google v1 (legacy) / Google v2, plain and fast-marshal; value incl. enums, 64-bit integers, bytes, maps, oneofs, well-known types as fields and - Value (every kind incl. null, negative and zero numbers), Struct, ListValue, Timestamp, Duration, wrappers (negative, minimal, large values) of Google v2 and gogo - as top-level messages, so that a document starts with each character a JSON value can start with; the 2^3 marshal option combinations, each adapter call with its own options only or (1 in 2) with all five options in one of the 120 orders (1 in 2 of those preceded by the same five options set to the opposite values: the later occurrence is in effect); indent in {\"\", \" \", \"  \", \"\\t\", \" \\t\"}; JSON with/without an injected unknown key x AllowUnknownFields (also for documents nested 99..400 levels deep through recursive types); JSON with/without a required field - the message's own or one of a child, incl. proto2 children of a proto3 message - x AllowPartialMessages (Google v2); 1 in 3 right after a MarshalJSON call that the runtime refuses (out-of-range Timestamp / Duration, also as a later list element; required field missing in a child)); oracle: json.Valid, adapter round trip == original, the OWNING runtime's JSON decoder accepts the output and decodes the original, structural probes for every option, nil => (nil, nil) (untyped nil and typed nil pointers of every corpus package and of the well-known types that implement json.Marshaler themselves), unmarshal into nil => error (the same nil values x {no option, one option, all options} x four documents); non-trivial = message with >= 1 enum / 64-bit / bytes / map field set and >= 1 option set; distinct by case content"

// ---- well-known types as TOP-LEVEL messages (their JSON form is not an object: null, number, string, array) ----

type wktJSONCase struct {
	Name   string `json:"name"`
	Indent string `json:"indent"`
}

var wktJSONValues = map[string]func() any{
	"gv2/Value-null":   func() any { return structpb.NewNullValue() },
	"gv2/Value-number": func() any { return structpb.NewNumberValue(1.5) },
	"gv2/Value-string": func() any { return structpb.NewStringValue("x") },
	"gv2/Value-bool":   func() any { return structpb.NewBoolValue(true) },
	"gv2/Value-list": func() any {
		return structpb.NewListValue(&structpb.ListValue{Values: []*structpb.Value{structpb.NewNullValue(), structpb.NewNumberValue(2)}})
	},
	"gv2/Value-struct": func() any {
		return structpb.NewStructValue(&structpb.Struct{Fields: map[string]*structpb.Value{"k": structpb.NewNullValue()}})
	},
	"gv2/Struct-empty": func() any { return &structpb.Struct{} },
	"gv2/Struct": func() any {
		return &structpb.Struct{Fields: map[string]*structpb.Value{"a": structpb.NewNullValue(), "b": structpb.NewNumberValue(1)}}
	},
	"gv2/ListValue-empty": func() any { return &structpb.ListValue{} },
	"gv2/ListValue": func() any {
		return &structpb.ListValue{Values: []*structpb.Value{structpb.NewNullValue(), structpb.NewStringValue("s")}}
	},
	"gv2/Timestamp":      func() any { return &timestamppb.Timestamp{Seconds: 1700000000, Nanos: 5} },
	"gv2/Timestamp-zero": func() any { return &timestamppb.Timestamp{} },
	"gv2/StringValue":    func() any { return wrapperspb.String("") },
	"gv2/Int64Value":     func() any { return wrapperspb.Int64(-9007199254740993) },
	"gv2/BoolValue":      func() any { return wrapperspb.Bool(false) },
	"gv2/BytesValue":     func() any { return wrapperspb.Bytes([]byte{0, 0xff}) },
	// documents whose FIRST byte is each of the characters a JSON value can start with: - 0-9 " t f n [ {
	"gv2/Value-negative":      func() any { return structpb.NewNumberValue(-1.5) },
	"gv2/Value-zero":          func() any { return structpb.NewNumberValue(0) },
	"gv2/Value-tiny-negative": func() any { return structpb.NewNumberValue(-1e-300) },
	"gv2/Value-false":         func() any { return structpb.NewBoolValue(false) },
	"gv2/Int32Value-negative": func() any { return wrapperspb.Int32(-7) },
	"gv2/Int32Value-min":      func() any { return wrapperspb.Int32(-2147483648) },
	"gv2/UInt32Value":         func() any { return wrapperspb.UInt32(4000000000) },
	"gv2/DoubleValue-neg":     func() any { return wrapperspb.Double(-0.25) },
	"gv2/FloatValue-neg":      func() any { return wrapperspb.Float(-2.5) },
	"gv2/DoubleValue-big":     func() any { return wrapperspb.Double(9e99) },
	"gv2/BoolValue-true":      func() any { return wrapperspb.Bool(true) },
	"gv2/Duration-negative":   func() any { return &durationpbAlias{Seconds: -3, Nanos: -500} },
	"gogo/Value-negative":     func() any { return &gogotypes.Value{Kind: &gogotypes.Value_NumberValue{NumberValue: -7}} },
	"gogo/Int32Value-neg":     func() any { return &gogotypes.Int32Value{Value: -7} },
	"gogo/DoubleValue-neg":    func() any { return &gogotypes.DoubleValue{Value: -2.5} },
	"gogo/FloatValue-neg":     func() any { return &gogotypes.FloatValue{Value: -0.5} },
	"gogo/BoolValue":          func() any { return &gogotypes.BoolValue{Value: true} },
	"gogo/Value-null":         func() any { return &gogotypes.Value{Kind: &gogotypes.Value_NullValue{}} },
	"gogo/Value-number":       func() any { return &gogotypes.Value{Kind: &gogotypes.Value_NumberValue{NumberValue: 1.5}} },
	"gogo/Value-string":       func() any { return &gogotypes.Value{Kind: &gogotypes.Value_StringValue{StringValue: "x"}} },
	"gogo/Struct": func() any {
		return &gogotypes.Struct{Fields: map[string]*gogotypes.Value{"a": {Kind: &gogotypes.Value_NullValue{}}, "b": {Kind: &gogotypes.Value_BoolValue{BoolValue: true}}}}
	},
	"gogo/ListValue": func() any {
		return &gogotypes.ListValue{Values: []*gogotypes.Value{{Kind: &gogotypes.Value_NullValue{}}}}
	},
	"gogo/Timestamp":   func() any { return &gogotypes.Timestamp{Seconds: 1700000000, Nanos: 5} },
	"gogo/StringValue": func() any { return &gogotypes.StringValue{Value: ""} },
	"gogo/Int64Value":  func() any { return &gogotypes.Int64Value{Value: -9007199254740993} },
	"gogo/BytesValue":  func() any { return &gogotypes.BytesValue{Value: []byte{0, 0xff}} },
}

func oracleC18WKT(c *wktJSONCase) (fail *ev.Failure) {
	mk := wktJSONValues[c.Name]
	if mk == nil {
		return ev.Failf("C18/replay-type-missing", "unknown well-known case %s", c.Name)
	}
	sig := func(kind string) string { return "C18/" + kind + "/wkt:" + c.Name }
	defer func() {
		if r := recover(); r != nil {
			fail = ev.Failf(sig("panic"), "panic: %v", r)
		}
	}()
	rtName := strings.SplitN(c.Name, "/", 2)[0]
	rt := runtimes[rtName]
	m := mk()
	out, err := csproto.JSONMarshaler(m, csproto.JSONIndent(c.Indent)).MarshalJSON()
	if err != nil {
		return ev.Failf(sig("marshal-error"), "JSONMarshaler: %v", err)
	}
	if !json.Valid(out) {
		return ev.Failf(sig("invalid-json"), "output is not well-formed JSON: %.200s", out)
	}
	back := reflect.New(reflect.TypeOf(m).Elem()).Interface()
	if err := csproto.JSONUnmarshaler(back).UnmarshalJSON(out); err != nil {
		return ev.Failf(sig("adapter-rejects-own-output"), "JSONUnmarshaler rejects the adapter's output %.200s: %v", out, err)
	}
	if !rt.equal(back, mk()) {
		return ev.Failf(sig("round-trip-differs"), "JSON %.200s decodes to %v, original %v", out, back, mk())
	}
	back2 := reflect.New(reflect.TypeOf(m).Elem()).Interface()
	if err := runtimeJSONUnmarshal(rtName, out, back2); err != nil {
		return ev.Failf(sig("runtime-decoder-rejects-output"), "%s's JSON decoder rejects %.200s: %v", rt.name, out, err)
	}
	if !rt.equal(back2, mk()) {
		return ev.Failf(sig("runtime-decoder-differs"), "%s's JSON decoder reads %.200s as %v, original %v", rt.name, out, back2, mk())
	}
	return nil
}

func TestC18(t *testing.T) {
	rec := ev.New("C18", ruleC18)
	defer rec.Write()
	useRecorder(rec)
	defer func() { t.Log(rec.Summary()); fmt.Print(rec.SurveyReport()) }()
	rec.Eval(1)
	rec.Check(t, "nilprobe", map[string]any{}, jsonNilProbes())
	{ // well-known types as top-level messages (exhaustive over a fixed list x indent strings)
		var names []string
		for n := range wktJSONValues {
			names = append(names, n)
		}
		sort.Strings(names)
		shard, shards := ev.Shard()
		for i, n := range names {
			if i%shards != shard {
				continue
			}
			for _, ind := range []string{"", "  ", "\t"} {
				c := &wktJSONCase{Name: n, Indent: ind}
				rec.Eval(1)
				rec.NonTrivialEnum(1)
				rec.Class("well-known-type-at-top-level")
				rec.Sample("wkt-top-level", c)
				rec.Check(t, "wktjson", c, oracleC18WKT(c))
			}
		}
	}
	mine := shardTypes(jsonTypes())
	if len(mine) == 0 {
		return
	}
	// deeply nested documents (recursive types): the adapters have no depth limit of their own
	for _, mt := range mine {
		if deepChain(mt.Desc, 1) == nil {
			continue
		}
		for _, depth := range []int{99, 100, 101, 150, 400} {
			for _, unk := range []bool{false, true} {
				c := &JCase{Type: mt.Key(), Value: []byte{}, Deep: depth, InjectUnknown: unk, AllowUnknown: true}
				rec.Eval(1)
				rec.NonTrivialEnum(1)
				rec.Class("deeply-nested-document")
				rec.Check(t, "jcase", c, oracleC18(c))
			}
		}
	}
	ev.Rapid(t, ev.N(12000, 300000), 18, func(rt *rapid.T) {
		mt := rapid.SampledFrom(mine).Draw(rt, "type")
		v := genDyn(rt, mt.Desc, 2, genOpts{runtime: mt.Info.Runtime, requiredProb: 10, maxMap: 2, jsonSafe: true, noExt: true}) // extensions are outside the common JSON option surface
		_, b := canon(v)
		c := &JCase{Type: mt.Key(), Value: b,
			Indent:        rapid.SampledFrom([]string{"", "", " ", "  ", "\t", " \t"}).Draw(rt, "indent"),
			EnumNumbers:   rapid.Bool().Draw(rt, "enumnum"),
			ZeroValues:    rapid.Bool().Draw(rt, "zeros"),
			InjectUnknown: rapid.Bool().Draw(rt, "injunk"),
			AllowUnknown:  rapid.Bool().Draw(rt, "allowunk"),
			DropRequired:  rapid.Bool().Draw(rt, "dropreq"),
			AllowPartial:  rapid.Bool().Draw(rt, "allowpartial"),
		}
		if rapid.Bool().Draw(rt, "allopts") {
			c.AllOpts, c.Order = true, rapid.IntRange(0, 119).Draw(rt, "order")
			rec.Class("all-five-options-in-a-drawn-order")
			if c.Overridden = rapid.Bool().Draw(rt, "overridden"); c.Overridden {
				rec.Class("options-preceded-by-their-opposites")
			}
		}
		if rapid.IntRange(0, 2).Draw(rt, "hasprelude") == 0 {
			c.Prelude = rapid.IntRange(1, len(jsonPreludes)-1).Draw(rt, "prelude")
			rec.Class("after-a-refused-marshal/" + jsonPreludes[c.Prelude].name)
		}
		rec.Eval(1)
		rec.Class("runtime/" + mt.Info.Runtime)
		interesting := false
		decodeRef(mt.Desc, b).Range(func(fd protoreflect.FieldDescriptor, _ protoreflect.Value) bool {
			switch fd.Kind() {
			case protoreflect.EnumKind, protoreflect.Int64Kind, protoreflect.Uint64Kind, protoreflect.Sint64Kind, protoreflect.Fixed64Kind, protoreflect.Sfixed64Kind, protoreflect.BytesKind:
				interesting = true
			}
			if fd.IsMap() {
				interesting = true
			}
			return true
		})
		if interesting && (c.Indent != "" || c.EnumNumbers || c.ZeroValues) {
			cj, _ := json.Marshal(c)
			rec.NonTrivial(ev.FP(cj))
			rec.Sample(mt.Info.Runtime, c)
		}
		rec.Check(rt, "jcase", c, oracleC18(c))
	})
}
