package gencode

import (
	"testing"

	"verif/harness/internal/ev"
)

// FuzzC08: bytes 0-1 select a generated type of the corpus, the rest is fed to its Unmarshal.
func FuzzC08(f *testing.F) {
	types := fmTypes(nil)
	if len(types) == 0 {
		f.Skip("no usable generated types")
	}
	for i := 0; i < len(types); i += 7 {
		for j, v := range sweepValues(types[i].Desc, types[i].Info.Runtime) {
			if j%9 == 0 {
				_, b := canon(v)
				f.Add(append([]byte{byte(i >> 8), byte(i)}, b...))
			}
		}
	}
	f.Add([]byte{0, 1, 0x0a, 0xff, 0xff, 0xff, 0xff, 0xff, 0xff, 0xff, 0xff, 0xff, 0x01})
	f.Add([]byte{0, 2, 0x0a, 0x80, 0x80, 0x80, 0x80, 0x10, 1, 2})
	f.Fuzz(func(t *testing.T, data []byte) {
		if len(data) < 2 {
			return
		}
		mt := types[(int(data[0])<<8|int(data[1]))%len(types)]
		c := &BCase{Type: mt.Key(), Bytes: append([]byte{}, data[2:]...), Note: "fuzz"}
		fl, _ := oracleC08(c)
		ev.FuzzCheck(t, "C08", "bcase", c, fl)
	})
}
