package gencode

import (
	"bytes"
	"encoding/json"
	"fmt"
	"runtime"
	"runtime/metrics"
	"strings"
	"testing"

	"google.golang.org/protobuf/proto"
	"google.golang.org/protobuf/reflect/protoreflect"
	"google.golang.org/protobuf/types/dynamicpb"
	"pgregory.net/rapid"

	"verif/harness/internal/ev"
	"verif/harness/internal/refwire"
)

// BCase is one (generated type, input bytes) case for the Unmarshal-side properties.
type BCase struct {
	Type  string `json:"type"`
	Bytes []byte `json:"bytes"`
	Pre   []byte `json:"pre,omitempty"`  // canonical encoding of what the destination holds before the call
	Note  string `json:"note,omitempty"` // which variant operations / mutations produced the bytes
}

func (c *BCase) sample() map[string]any {
	return map[string]any{"type": c.Type, "bytes_hex": fmt.Sprintf("%.240x", c.Bytes), "len": len(c.Bytes), "pre_hex": fmt.Sprintf("%.60x", c.Pre), "note": c.Note}
}

func (c *BCase) dest() (*MsgType, any) {
	loadCorpus()
	mt := typeByKey[c.Type]
	if mt == nil {
		panic("harness: unknown type " + c.Type)
	}
	m := mt.New()
	if len(c.Pre) > 0 {
		FromDynamic(decodeRef(mt.Desc, c.Pre), m)
	}
	return mt, m
}

// oracleC06: on a legal encoding the generated Unmarshal succeeds and agrees with the reference,
// whatever the destination held before.
func oracleC06(c *BCase) *ev.Failure {
	mt, m := c.dest()
	ref := dynamicpb.NewMessage(mt.Desc)
	if err := refUnmarshal().Unmarshal(c.Bytes, ref); err != nil {
		panic(fmt.Sprintf("harness: the reference rejects an encoding the variant encoder claims is legal: %v (%x)", err, c.Bytes))
	}
	in := append([]byte{}, c.Bytes...)
	var err error
	if f := guard("C06", mt, "Unmarshal", func() { err = m.(fastMsg).Unmarshal(in) }); f != nil {
		return f
	}
	split := singularMessageOccursTwice(mt.Desc, c.Bytes)
	if err != nil {
		kind := "rejects-legal-encoding"
		if split {
			kind = "merge-semantics"
		}
		return ev.Failf(sigOf("C06", kind, mt), "Unmarshal(%.80x) [%s]: %v; the reference decodes it as %.200v", c.Bytes, c.Note, err, ref)
	}
	got := ToDynamic(m, mt.Desc)
	if !proto.Equal(got, ref) {
		kind := "value-differs"
		if split {
			kind = "merge-semantics"
		}
		if len(c.Pre) > 0 {
			// does it depend on the previous content of the destination?
			fresh := mt.New()
			if fresh.(fastMsg).Unmarshal(append([]byte{}, c.Bytes...)) == nil && proto.Equal(ToDynamic(fresh, mt.Desc), ref) {
				kind = "depends-on-destination"
			}
		}
		return ev.Failf(sigOf("C06", kind, mt), "Unmarshal(%.80x) [%s] gives %.200v, the reference decodes %.200v", c.Bytes, c.Note, got, ref)
	}
	return nil
}

// singularMessageOccursTwice: does some singular message field occur more than once at some level?
func singularMessageOccursTwice(md protoreflect.MessageDescriptor, b []byte) bool {
	fs, err := refwire.Walk(b)
	if err != nil {
		return false
	}
	seen := map[int]int{}
	for _, f := range fs {
		fd := md.Fields().ByNumber(protoreflect.FieldNumber(f.Num))
		if fd == nil {
			// a message-typed extension of md is a singular message field like any other
			for _, xt := range extensionsOf(md) {
				if int(xt.TypeDescriptor().Number()) == f.Num {
					fd = xt.TypeDescriptor()
				}
			}
		}
		if fd == nil || f.WT != refwire.WTLen {
			continue
		}
		var child protoreflect.MessageDescriptor
		switch {
		case fd.IsMap():
			// entry: recurse into the value if it is a message
			if vm := fd.MapValue().Message(); vm != nil {
				es, err := refwire.Walk(b[f.PayloadStart:f.End])
				if err == nil {
					values := 0
					for _, e := range es {
						if e.Num == 2 && e.WT == refwire.WTLen {
							// the value of a map entry is a singular message field of the (synthetic) entry message: a
							// second occurrence inside ONE entry is the same split
							if values++; values > 1 {
								return true
							}
							if singularMessageOccursTwice(vm, b[f.PayloadStart:f.End][e.PayloadStart:e.End]) {
								return true
							}
						}
					}
				}
			}
			continue
		case fd.Message() != nil:
			child = fd.Message()
			if !fd.IsList() {
				seen[f.Num]++
				if seen[f.Num] > 1 {
					return true
				}
			}
		}
		if child != nil && singularMessageOccursTwice(child, b[f.PayloadStart:f.End]) {
			return true
		}
	}
	return false
}

// oracleC07: unknown fields are retained, counted by Size and re-emitted byte for byte.
func oracleC07(c *BCase) *ev.Failure {
	mt, m := c.dest()
	ref := dynamicpb.NewMessage(mt.Desc)
	if err := refUnmarshal().Unmarshal(c.Bytes, ref); err != nil {
		panic(fmt.Sprintf("harness: reference rejects a generated encoding: %v", err))
	}
	fm := m.(fastMsg)
	var err error
	if f := guard("C07", mt, "Unmarshal", func() { err = fm.Unmarshal(append([]byte{}, c.Bytes...)) }); f != nil {
		return f
	}
	if err != nil {
		return ev.Failf(sigOf("C07", "unmarshal-error", mt), "Unmarshal(%.80x): %v", c.Bytes, err)
	}
	var out []byte
	var sz int
	if f := guard("C07", mt, "Marshal", func() { sz = fm.Size(); out, err = fm.Marshal() }); f != nil {
		return f
	}
	if err != nil {
		return ev.Failf(sigOf("C07", "marshal-error", mt), "Marshal after Unmarshal: %v", err)
	}
	if sz != len(out) {
		return ev.Failf(sigOf("C07", "size-vs-marshal", mt), "Size()=%d, Marshal() returned %d bytes", sz, len(out))
	}
	back := dynamicpb.NewMessage(mt.Desc)
	if err := refUnmarshal().Unmarshal(out, back); err != nil {
		return ev.Failf(sigOf("C07", "reference-rejects-output", mt), "reference cannot parse the re-marshaled bytes %.80x: %v", out, err)
	}
	if f := compareUnknown(mt, ref, back, ""); f != nil {
		return f
	}
	if !proto.Equal(ref, back) {
		return ev.Failf(sigOf("C07", "known-part-differs", mt), "input %.80x decodes to %.200v, the re-marshaled bytes %.80x to %.200v", c.Bytes, ref, out, back)
	}
	return nil
}

func compareUnknown(mt *MsgType, a, b protoreflect.Message, path string) *ev.Failure {
	if !bytes.Equal(a.GetUnknown(), b.GetUnknown()) {
		return ev.Failf(sigOf("C07", "unknown-fields-lost", mt), "unknown fields at %q: input carries %x, re-marshaled output carries %x", path, []byte(a.GetUnknown()), []byte(b.GetUnknown()))
	}
	var fail *ev.Failure
	a.Range(func(fd protoreflect.FieldDescriptor, v protoreflect.Value) bool {
		if fd.Message() == nil || fd.IsMap() || !b.Has(fd) {
			return true
		}
		if fd.IsList() {
			bl := b.Get(fd).List()
			for i := 0; i < v.List().Len() && i < bl.Len(); i++ {
				if fail = compareUnknown(mt, v.List().Get(i).Message(), bl.Get(i).Message(), fmt.Sprintf("%s.%d[%d]", path, fd.Number(), i)); fail != nil {
					return false
				}
			}
			return true
		}
		fail = compareUnknown(mt, v.Message(), b.Get(fd).Message(), fmt.Sprintf("%s.%d", path, fd.Number()))
		return fail == nil
	})
	return fail
}

// ---- C08: totality on arbitrary bytes ----

var allocSample = []metrics.Sample{{Name: "/gc/heap/allocs:bytes"}}

func allocNow() uint64 {
	metrics.Read(allocSample)
	return allocSample[0].Value.Uint64()
}

func exactAlloc(f func()) uint64 {
	best := ^uint64(0)
	for i := 0; i < 3; i++ {
		var a, b runtime.MemStats
		runtime.ReadMemStats(&a)
		f()
		runtime.ReadMemStats(&b)
		if d := b.TotalAlloc - a.TotalAlloc; d < best {
			best = d
		}
	}
	return best
}

var structSizeCache = map[string]uintptr{}

// maxStructSize: the largest Go struct reachable from the type (one tiny nested element legitimately
// allocates a whole struct).
func maxStructSize(mt *MsgType) uintptr {
	if s, ok := structSizeCache[mt.Key()]; ok {
		return s
	}
	var best uintptr
	seen := map[protoreflect.FullName]bool{}
	var walk func(md protoreflect.MessageDescriptor)
	walk = func(md protoreflect.MessageDescriptor) {
		if seen[md.FullName()] {
			return
		}
		seen[md.FullName()] = true
		for _, t := range allTypes {
			if t.Info.Variant == mt.Info.Variant && t.Full == string(md.FullName()) {
				if s := t.goT.Elem().Size(); s > best {
					best = s
				}
			}
		}
		for i := 0; i < md.Fields().Len(); i++ {
			fd := md.Fields().Get(i)
			if fd.IsMap() && fd.MapValue().Message() != nil {
				walk(fd.MapValue().Message())
			} else if fd.Message() != nil {
				walk(fd.Message())
			}
		}
	}
	walk(mt.Desc)
	if best < 256 {
		best = 256
	}
	structSizeCache[mt.Key()] = best
	return best
}

func oracleC08(c *BCase) (f *ev.Failure, bothAccept bool) {
	mt, m := c.dest()
	fm := m.(fastMsg)
	in := append([]byte{}, c.Bytes...)
	bound := 4096 + uint64(len(in))*(576+2*uint64(maxStructSize(mt)))
	var err error
	a0 := allocNow()
	if f := guard("C08", mt, "Unmarshal", func() { err = fm.Unmarshal(in) }); f != nil {
		f.Detail += fmt.Sprintf(" (input %.80x, %s)", c.Bytes, c.Note)
		return f, false
	}
	if delta := allocNow() - a0; delta > bound {
		exact := exactAlloc(func() {
			defer func() { _ = recover() }()
			_ = mt.New().(fastMsg).Unmarshal(append([]byte{}, c.Bytes...))
		})
		if exact > bound+uint64(len(in)) {
			return ev.Failf(sigOf("C08", "allocation", mt), "Unmarshal of a %d-byte input %.80x allocated %d bytes (bound %d)", len(in), c.Bytes, exact, bound), false
		}
	}
	if err != nil {
		return nil, false
	}
	ref := dynamicpb.NewMessage(mt.Desc)
	if rerr := (proto.UnmarshalOptions{Resolver: dynTypes, AllowPartial: true}).Unmarshal(c.Bytes, ref); rerr != nil {
		return nil, false // csproto accepts what the reference rejects: outside the property
	}
	var got *dynamicpb.Message
	if f := guard("C08", mt, "bridge", func() { got = ToDynamic(m, mt.Desc) }); f != nil {
		return f, true
	}
	if !proto.Equal(got, ref) {
		// protobuf-go itself is of two minds about an unknown field whose KEY is a non-minimal varint: its
		// table-driven decoder (used for the concrete well-known types a generated message embeds) re-encodes
		// the key minimally, its reflective decoder (dynamicpb, the reference here) keeps the raw bytes.  The
		// same unknown field either way: compare with minimally re-encoded keys before calling it a difference.
		gn, rn := proto.Clone(got).ProtoReflect(), proto.Clone(ref).ProtoReflect()
		normUnknownKeys(gn)
		normUnknownKeys(rn)
		if safeEqual(gn.Interface(), rn.Interface()) {
			return nil, true
		}
		// which part disagrees: the known fields or only the retained unknown bytes?
		kind := "silent-disagreement-known-fields"
		g2, r2 := proto.Clone(got).ProtoReflect(), proto.Clone(ref).ProtoReflect()
		stripUnknown(g2)
		stripUnknown(r2)
		if singularMessageOccursTwice(mt.Desc, c.Bytes) {
			kind = "merge-semantics" // (the recorded C06 finding, reached through a mutated input)
		} else if proto.Equal(g2.Interface(), r2.Interface()) {
			kind = "silent-disagreement-unknown-bytes"
		}
		return ev.Failf(sigOf("C08", kind, mt), "both decoders accept %.80x [%s] but the generated Unmarshal gives %.200v (unknown %x) and the reference %.200v (unknown %x)", c.Bytes, c.Note, g2.Interface(), []byte(got.GetUnknown()), r2.Interface(), []byte(ref.GetUnknown())), true
	}
	return nil, true
}

// safeEqual is proto.Equal for messages whose unknown bytes may be garbage (protobuf-go's comparison of
// unknown fields assumes well-formed bytes and panics otherwise): a panic counts as "not equal".
func safeEqual(a, b proto.Message) (eq bool) {
	defer func() {
		if recover() != nil {
			eq = false
		}
	}()
	return proto.Equal(a, b)
}

// normUnknownKeys rewrites the unknown fields of m (and of every message below it) with minimally encoded keys;
// bytes that do not parse as a field sequence are left alone.
func normUnknownKeys(m protoreflect.Message) {
	if u := []byte(m.GetUnknown()); len(u) > 0 {
		if fs, err := refwire.Walk(u); err == nil {
			var out []byte
			for _, f := range fs {
				out = refwire.AppendKey(out, f.Num, f.WT)
				out = append(out, u[f.ValStart:f.End]...)
			}
			m.SetUnknown(out)
		}
	}
	m.Range(func(fd protoreflect.FieldDescriptor, v protoreflect.Value) bool {
		switch {
		case fd.IsMap() && fd.MapValue().Message() != nil:
			v.Map().Range(func(_ protoreflect.MapKey, mv protoreflect.Value) bool { normUnknownKeys(mv.Message()); return true })
		case fd.IsList() && fd.Message() != nil:
			for i := 0; i < v.List().Len(); i++ {
				normUnknownKeys(v.List().Get(i).Message())
			}
		case fd.Message() != nil && !fd.IsMap() && !fd.IsList():
			normUnknownKeys(v.Message())
		}
		return true
	})
}

// deepEncodings returns, per self-recursive field of md, the encoding of a message nested depth levels through it
// (built inside out on the wire: no recursion in the harness).
func deepEncodings(md protoreflect.MessageDescriptor, depth int) [][]byte {
	var out [][]byte
	for i := 0; i < md.Fields().Len(); i++ {
		fd := md.Fields().Get(i)
		isMapRec := fd.IsMap() && fd.MapValue().Message() == md
		if !isMapRec && fd.Message() != md {
			continue
		}
		base := dynamicpb.NewMessage(md)
		fillRequired(base, 1)
		inner, err := refMarshal.Marshal(base)
		if err != nil {
			continue
		}
		req := inner // what every level carries besides the recursive field
		cur := inner
		for d := 0; d < depth; d++ {
			payload := cur
			if isMapRec {
				// entry: key (field 1, default value omitted) + value (field 2)
				payload = refwire.AppendLen(refwire.AppendKey(nil, 2, refwire.WTLen), cur)
			}
			cur = append(refwire.AppendLen(refwire.AppendKey(nil, int(fd.Number()), refwire.WTLen), payload), req...)
		}
		out = append(out, cur)
	}
	return out
}

func stripUnknown(m protoreflect.Message) {
	m.SetUnknown(nil)
	m.Range(func(fd protoreflect.FieldDescriptor, v protoreflect.Value) bool {
		switch {
		case fd.IsMap() && fd.MapValue().Message() != nil:
			v.Map().Range(func(_ protoreflect.MapKey, mv protoreflect.Value) bool { stripUnknown(mv.Message()); return true })
		case fd.IsList() && fd.Message() != nil:
			for i := 0; i < v.List().Len(); i++ {
				stripUnknown(v.List().Get(i).Message())
			}
		case fd.Message() != nil && !fd.IsMap() && !fd.IsList():
			stripUnknown(v.Message())
		}
		return true
	})
}

// mutateEncoding applies one of the C08 mutation operators.
func mutateEncoding(t *rapid.T, b []byte) ([]byte, string) {
	b = append([]byte{}, b...)
	switch rapid.IntRange(0, 8).Draw(t, "mut") {
	case 8: // a field with an ILLEGAL key - number 0, number 2^29, wire type 6 / 7 - and a well-formed payload, put at a
		// field boundary (mostly in front: whatever follows, extension fields included, is still processed if it is accepted)
		fs, err := refwire.Walk(b)
		if err == nil {
			pos := 0
			if len(fs) > 0 && rapid.IntRange(0, 2).Draw(t, "illpos") == 0 {
				pos = fs[rapid.IntRange(0, len(fs)-1).Draw(t, "illat")].End
			}
			wt := rapid.SampledFrom([]int{1, 2, 5, 0, 1, 2, 5, 6, 7}).Draw(t, "illwt")
			num := uint64(rapid.SampledFrom([]int{0, 0, 0, 1 << 29, 1<<32 + 1}).Draw(t, "illnum"))
			if wt >= 6 {
				num = 1
			}
			ins := refwire.AppendVarint(nil, num<<3|uint64(wt))
			switch wt {
			case 0:
				ins = append(ins, 0x07)
			case 1:
				ins = append(ins, 1, 2, 3, 4, 5, 6, 7, 8)
			case 2:
				ins = append(ins, 2, 0x08, 0x01)
			case 5:
				ins = append(ins, 1, 2, 3, 4)
			default:
				ins = append(ins, 0x00)
			}
			out := append(append(append([]byte{}, b[:pos]...), ins...), b[pos:]...)
			return out, "illegal-key"
		}
	case 0:
		if len(b) > 0 {
			return b[:rapid.IntRange(0, len(b)-1).Draw(t, "trunc")], "truncate"
		}
	case 1:
		if len(b) > 0 {
			i := rapid.IntRange(0, len(b)-1).Draw(t, "pos")
			b[i] = rapid.SampledFrom([]byte{0x00, 0x7f, 0x80, 0xff, b[i] ^ 1, b[i] ^ 0x80, b[i] ^ 2, b[i] ^ 4}).Draw(t, "nb")
			return b, "overwrite"
		}
	case 2: // inflate a length prefix
		fs, err := refwire.Walk(b)
		var lens []refwire.Field
		if err == nil {
			for _, f := range fs {
				if f.WT == refwire.WTLen {
					lens = append(lens, f)
				}
			}
		}
		if len(lens) > 0 {
			f := rapid.SampledFrom(lens).Draw(t, "lenfield")
			rem := uint64(len(b) - f.PayloadStart)
			nl := rapid.SampledFrom([]uint64{rem + 1, 1<<31 - 1, 1 << 31, 1 << 32, 1 << 40, 1 << 63, 1<<64 - 1}).Draw(t, "newlen")
			out := append([]byte{}, b[:f.ValStart]...)
			out = refwire.AppendVarint(out, nl)
			return append(out, b[f.PayloadStart:]...), "inflate-length"
		}
	case 3: // change the wire type of one key - at the top level or inside a nested payload (map entry, child message)
		fs, err := refwire.Walk(b)
		if err == nil && len(fs) > 0 {
			base := 0
			for depth := 0; depth < 3; depth++ {
				// descend into a length-delimited payload that parses as a field sequence
				var inner []refwire.Field
				for _, f := range fs {
					if f.WT == refwire.WTLen && f.End > f.PayloadStart {
						if sub, err := refwire.Walk(b[base+f.PayloadStart : base+f.End]); err == nil && len(sub) > 0 {
							inner = append(inner, f)
						}
					}
				}
				if len(inner) == 0 || rapid.IntRange(0, 2).Draw(t, "descend") == 0 {
					break
				}
				f := rapid.SampledFrom(inner).Draw(t, "into")
				fs, _ = refwire.Walk(b[base+f.PayloadStart : base+f.End])
				base += f.PayloadStart
			}
			f := rapid.SampledFrom(fs).Draw(t, "wtfield")
			nwt := rapid.SampledFrom([]int{0, 1, 2, 5, 3, 4}).Draw(t, "nwt")
			key := refwire.AppendKey(nil, f.Num, nwt)
			if base > 0 && len(key) != f.ValStart-f.KeyStart {
				return b, "none" // (a nested key of another size would need the enclosing lengths re-written)
			}
			out := append([]byte{}, b[:base+f.KeyStart]...)
			out = append(out, key...)
			note := "rewire-type"
			if base > 0 {
				note = "rewire-type-nested"
			}
			return append(out, b[base+f.ValStart:]...), note
		}
	case 7: // a varint value with bits set beyond 32 (readers of 32-bit kinds truncate; bool readers must not)
		fs, err := refwire.Walk(b)
		var vs []refwire.Field
		if err == nil {
			for _, f := range fs {
				if f.WT == refwire.WTVarint {
					vs = append(vs, f)
				}
			}
		}
		if len(vs) > 0 {
			f := rapid.SampledFrom(vs).Draw(t, "widefield")
			hi := rapid.SampledFrom([]uint64{1 << 32, 1 << 33, 0xffffffff00000000, 1 << 63, 0x7fffffff00000000}).Draw(t, "widehi")
			out := append([]byte{}, b[:f.ValStart]...)
			out = refwire.AppendVarint(out, f.Varint&0xffffffff|hi)
			return append(out, b[f.End:]...), "widen-varint"
		}
	case 4:
		return append(b, rapid.SliceOfN(rapid.Byte(), 1, 8).Draw(t, "tail")...), "append-garbage"
	case 5:
		return rapid.SliceOfN(rapid.Byte(), 0, 40).Draw(t, "random"), "random-bytes"
	case 6: // hostile packed/length-delimited occurrence of an existing field number
		fs, err := refwire.Walk(b)
		if err == nil && len(fs) > 0 {
			f := rapid.SampledFrom(fs).Draw(t, "hfield")
			ins := refwire.AppendKey(nil, f.Num, 2)
			ins = refwire.AppendVarint(ins, rapid.SampledFrom([]uint64{1 << 31, 1 << 40, 1 << 62, 1<<64 - 1, 1<<31 - 1, 64}).Draw(t, "hl"))
			return append(b, ins...), "hostile-length"
		}
	}
	return b, "none"
}

// ---- C10: safe-mode decoding never aliases the caller's buffer ----

// oracleC10OptSpelling: the generator's verdict on option spellings (see vgen): enableunsafedecode switched off
// explicitly must give exactly the code generated without the option.
func oracleC10OptSpelling() *ev.Failure {
	loadCorpus()
	for _, fi := range manifest.Files {
		if fi.OptSpelling != "" && strings.Contains(fi.OptSpelling, "enableunsafedecode") {
			return ev.Failf("C10/unsafe-decode-option-spelling/"+fi.Variant, "%s", fi.OptSpelling)
		}
	}
	return nil
}

func oracleC10(c *BCase) (f *ev.Failure, nontrivial bool) {
	mt, m := c.dest()
	fm := m.(fastMsg)
	in := append([]byte{}, c.Bytes...)
	var err error
	if f := guard("C10", mt, "Unmarshal", func() { err = fm.Unmarshal(in) }); f != nil {
		return f, false
	}
	if err != nil {
		return nil, false // acceptance is C06's subject
	}
	snap := ToDynamic(m, mt.Desc) // deep copy through reflection
	nontrivial = hasVarLen(snap)
	// the caller overwrites the buffer ...
	for i := range in {
		in[i] = 'X'
	}
	if now := ToDynamic(m, mt.Desc); !proto.Equal(now, snap) {
		return ev.Failf(sigOf("C10", "aliases-input", mt), "after overwriting the input buffer the decoded message changed from %.200v to %.200v", snap, now), nontrivial
	}
	// ... and recycles it for another decode
	other := mt.New().(fastMsg)
	copy(in, c.Bytes)
	for i := range in {
		in[i] ^= 0x20
	}
	_ = guard("C10", mt, "Unmarshal", func() { _ = other.Unmarshal(in) })
	if now := ToDynamic(m, mt.Desc); !proto.Equal(now, snap) {
		return ev.Failf(sigOf("C10", "aliases-input", mt), "after re-using the input buffer for another decode the first message changed from %.200v to %.200v", snap, now), nontrivial
	}
	return nil, nontrivial
}

func hasVarLen(m protoreflect.Message) bool {
	found := len(m.GetUnknown()) > 0
	m.Range(func(fd protoreflect.FieldDescriptor, v protoreflect.Value) bool {
		switch fd.Kind() {
		case protoreflect.StringKind, protoreflect.BytesKind, protoreflect.MessageKind:
			found = true
		}
		if fd.IsMap() {
			found = true
		}
		return !found
	})
	return found
}

// ---- drivers ----

func shardTypes(types []*MsgType) []*MsgType {
	shard, shards := ev.Shard()
	var mine []*MsgType
	for i, mt := range types {
		if i%shards == shard {
			mine = append(mine, mt)
		}
	}
	return mine
}

func TestC06(t *testing.T) {
	rec := ev.New("C06", ruleValues+"each value is re-encoded by a schema-aware encoder whose free choices are drawn from rapid: field order permutation, repeated scalars packed / unpacked / split into several runs / mixed, a singular scalar emitted twice with another earlier value, a singular message split into two partial occurrences, map entries with value before key / key omitted / value omitted / duplicate key, unknown fields interleaved at every level; the destination is pre-populated with an unrelated random value; oracle: generated Unmarshal succeeds and equals the reference decode of the same bytes; non-trivial = the encoding differs from the canonical one; distinct by (type, bytes, pre-population)")
	defer rec.Write()
	useRecorder(rec)
	defer func() { t.Log(rec.Summary()); fmt.Print(rec.SurveyReport()) }()
	requireUsable(t, fmTypes(nil), 300)
	mine := shardTypes(fmTypes(nil))
	if len(mine) == 0 {
		return
	}
	ev.Rapid(t, ev.N(100000, 3000000), 6, func(rt *rapid.T) {
		mt := rapid.SampledFrom(mine).Draw(rt, "type")
		v, canonical := canon(genDyn(rt, mt.Desc, 3, genOpts{runtime: mt.Info.Runtime, requiredProb: 10, maxMap: 3}))
		var st varStats
		vo := allVariants
		if excluding("singular-message-split-into-two-occurrences") {
			vo.splitMsg = false
		}
		c := &BCase{Type: mt.Key(), Bytes: encodeVariant(rt, v, vo, &st, 0)}
		if rapid.IntRange(0, 2).Draw(rt, "prepopulate") != 0 {
			_, c.Pre = canon(genDyn(rt, mt.Desc, 2, genOpts{runtime: mt.Info.Runtime, requiredProb: 10, maxMap: 2}))
		}
		c.Note = fmt.Sprintf("%+v", st)
		rec.Eval(1)
		rec.Class("variant/" + mt.Info.Variant)
		for name, n := range map[string]int{"permuted": st.permuted, "repacked": st.repacked, "split-run": st.splitRun, "dup-scalar": st.dupScalar, "split-message": st.splitMsg, "explicit-default": st.explicitDefault,
			"map-swapped": st.mapSwapped, "map-key-omitted": st.mapKeyOmitted, "map-value-omitted": st.mapValOmitted, "map-dup-key": st.mapDupKey, "map-entry-extra-field": st.mapExtra, "unknown": st.unknown} {
			if n > 0 {
				rec.Class("op/" + name)
			}
		}
		if len(c.Pre) > 0 {
			rec.Class("dirty-destination")
		}
		if !bytes.Equal(c.Bytes, canonical) {
			rec.NonTrivial(ev.FP(c.Type, c.Bytes, c.Pre))
			rec.Sample(mt.Info.Variant+"/"+mt.Info.Feature, c.sample())
		}
		rec.Check(rt, "bcase", c, oracleC06(c))
	})
}

func TestC07(t *testing.T) {
	rec := ev.New("C07", ruleValues+"each value is encoded canonically with 1..6 well-formed unknown fields (numbers outside the schema incl. >= 2^26 and inside extension ranges but not declared, wire types 0/1/2/5) inserted at every nesting level and interleaved with the known fields (field order permuted); 1 in 3 decoded into an object that already holds another value with unknown fields (1 in 4 of those: the empty input); oracle: Unmarshal ok, Size()==len(Marshal()), and the reference decode of the re-marshaled bytes carries byte-identical unknown fields at every level and an equal known part; non-trivial = >= 1 unknown field; distinct by (type, bytes)")
	defer rec.Write()
	useRecorder(rec)
	defer func() { t.Log(rec.Summary()); fmt.Print(rec.SurveyReport()) }()
	requireUsable(t, fmTypes(nil), 300)
	mine := shardTypes(fmTypes(nil))
	if len(mine) == 0 {
		return
	}
	ev.Rapid(t, ev.N(40000, 1000000), 7, func(rt *rapid.T) {
		mt := rapid.SampledFrom(mine).Draw(rt, "type")
		v, _ := canon(genDyn(rt, mt.Desc, 3, genOpts{runtime: mt.Info.Runtime, requiredProb: 10, maxMap: 1}))
		var st varStats
		c := &BCase{Type: mt.Key(), Bytes: encodeVariant(rt, v, varOpts{unknowns: true, permute: true}, &st, 0)}
		if rapid.IntRange(0, 2).Draw(rt, "reused") == 0 {
			// the destination is a message object that was used before: it holds another value WITH unknown fields,
			// none of which may show up in the next Marshal
			var st2 varStats
			pv, _ := canon(genDyn(rt, mt.Desc, 2, genOpts{runtime: mt.Info.Runtime, requiredProb: 10, maxMap: 1}))
			c.Pre = encodeVariant(rt, pv, varOpts{unknowns: true}, &st2, 0)
			rec.Class("destination-used-before")
			if rapid.IntRange(0, 3).Draw(rt, "emptyinput") == 0 && len(requiredSlots(mt.Desc, nil, 0, map[protoreflect.FullName]int{})) == 0 {
				c.Bytes = []byte{} // the empty message arrives in a used object
				st = varStats{}
			}
		}
		c.Note = fmt.Sprintf("unknown fields inserted: %d", st.unknown)
		rec.Eval(1)
		rec.Class("variant/" + mt.Info.Variant)
		if st.unknown > 0 {
			rec.NonTrivial(ev.FP(c.Type, c.Bytes))
			rec.Sample(mt.Info.Variant+"/"+mt.Info.Feature, c.sample())
		}
		rec.Check(rt, "bcase", c, oracleC07(c))
	})
}

func TestC08(t *testing.T) {
	rec := ev.New("C08", ruleValues+"valid encodings are mutated (truncate at an offset, overwrite a byte with {00,7f,80,ff,b^1,b^2,b^4,b^80}, inflate a length prefix to {remaining+1, 2^31-1, 2^31, 2^32, 2^40, 2^63, 2^64-1}, change a key's wire type incl. groups at the top level or inside a nested payload / map entry, insert a field with an illegal key (number 0, number >= 2^29, wire type 6 / 7) and a well-formed payload at a field boundary, append garbage, a varint value with bits beyond 32 set, hostile length for an existing number, plain random bytes); messages nested 3000 levels deep through every self-recursive field; the quick tier also truncates at every offset and overwrites every byte of the sweep encodings of each type, and gives the key and value field of every map entry in up to three sweep encodings per type each of the other wire types; 1 in 4 inputs (and the systematic truncations) are decoded into a receiver that already holds another value; oracle: returns (no panic), bytes allocated <= 4 KiB + len*(576+2*S), and when both decoders accept the messages are equal; non-trivial = the input is not a valid canonical encoding; distinct by (type, bytes)")
	defer rec.Write()
	useRecorder(rec)
	defer func() { t.Log(rec.Summary()); fmt.Print(rec.SurveyReport()) }()
	rec.Assume("allocation metered with runtime/metrics, confirmed by an exact MemStats bracket on a fresh message before it is reported")
	requireUsable(t, fmTypes(nil), 300)
	mine := shardTypes(fmTypes(nil))
	if len(mine) == 0 {
		return
	}
	one := func(tb ev.TB, c *BCase, class string) {
		rec.Journal("bcase", c)
		f, both := oracleC08(c)
		rec.Eval(1)
		rec.Class(class)
		if both {
			rec.Class("both-decoders-accept")
		}
		rec.NonTrivial(ev.FP(c.Type, c.Bytes))
		rec.Check(tb, "bcase", c, f)
	}
	// systematic: messages nested thousands of levels deep through every self-recursive field (singular, list
	// element, map value, oneof member) - no crash, allocation proportional to the input
	for _, mt := range mine {
		for _, b := range deepEncodings(mt.Desc, 3000) {
			one(t, &BCase{Type: mt.Key(), Bytes: b, Note: "deeply-nested"}, "systematic/deeply-nested")
		}
	}
	// systematic: every truncation and every single-byte overwrite of a few sweep encodings per type
	for _, mt := range mine {
		vals := sweepValues(mt.Desc, mt.Info.Runtime)
		step := len(vals)/6 + 1
		for i := 0; i < len(vals); i += step {
			_, b := canon(vals[i])
			if len(b) > 48 {
				continue
			}
			for cut := 0; cut < len(b); cut++ {
				one(t, &BCase{Type: mt.Key(), Bytes: b[:cut], Note: "truncate-all"}, "systematic/truncate")
				if cut < 3 || cut%4 == 0 {
					// ... and into a receiver that already holds the complete value (what it held must not show through)
					one(t, &BCase{Type: mt.Key(), Bytes: b[:cut], Pre: b, Note: "truncate-all-into-used-receiver"}, "systematic/truncate-into-used-receiver")
				}
			}
			for pos := 0; pos < len(b); pos++ {
				for _, nb := range []byte{0x00, 0x7f, 0x80, 0xff, b[pos] ^ 1, b[pos] ^ 2, b[pos] ^ 0x80} {
					mb := append([]byte{}, b...)
					mb[pos] = nb
					one(t, &BCase{Type: mt.Key(), Bytes: mb, Note: "overwrite-all"}, "systematic/overwrite")
				}
			}
		}
	}
	// systematic: in up to three sweep encodings per type that hold map entries, the key of every entry's key field
	// and value field is given each of the other wire types (same key size, so no length has to be re-written)
	for _, mt := range mine {
		done := 0
		for _, v := range sweepValues(mt.Desc, mt.Info.Runtime) {
			if done >= 3 {
				break
			}
			_, b := canon(v)
			if len(b) > 400 {
				continue
			}
			fs, err := refwire.Walk(b)
			if err != nil {
				continue
			}
			hit := false
			for _, f := range fs {
				fd := mt.Desc.Fields().ByNumber(protoreflect.FieldNumber(f.Num))
				if fd == nil || !fd.IsMap() || f.WT != refwire.WTLen {
					continue
				}
				es, err := refwire.Walk(b[f.PayloadStart:f.End])
				if err != nil {
					continue
				}
				for _, e := range es {
					if e.Num != 1 && e.Num != 2 {
						continue
					}
					for _, nwt := range []int{0, 1, 2, 5} {
						if nwt == e.WT {
							continue
						}
						mb := append([]byte{}, b...)
						mb[f.PayloadStart+e.KeyStart] = byte(e.Num<<3 | nwt)
						one(t, &BCase{Type: mt.Key(), Bytes: mb, Note: "map-entry-rewire"}, "systematic/map-entry-rewire")
						hit = true
					}
				}
			}
			if hit {
				done++
			}
		}
	}
	ev.Rapid(t, ev.N(150000, 6000000), 8, func(rt *rapid.T) {
		mt := rapid.SampledFrom(mine).Draw(rt, "type")
		_, b := canon(genDyn(rt, mt.Desc, 3, genOpts{runtime: mt.Info.Runtime, requiredProb: 9, maxMap: 2}))
		var note string
		b, note = mutateEncoding(rt, b)
		if rapid.IntRange(0, 3).Draw(rt, "twice") == 0 {
			var n2 string
			b, n2 = mutateEncoding(rt, b)
			note += "+" + n2
		}
		c := &BCase{Type: mt.Key(), Bytes: b, Note: note}
		if rapid.IntRange(0, 3).Draw(rt, "usedreceiver") == 0 {
			_, c.Pre = canon(genDyn(rt, mt.Desc, 2, genOpts{runtime: mt.Info.Runtime, requiredProb: 9, maxMap: 2}))
			rec.Class("receiver-holds-another-value")
		}
		rec.Sample(mt.Info.Variant+"/"+note, c.sample())
		one(rt, c, "mutation/"+note)
	})
	rec.JournalClear()
}

func TestC10(t *testing.T) {
	rec := ev.New("C10", ruleValues+"only types generated WITHOUT enableunsafedecode; values rich in variable-length data (string, bytes, repeated bytes, map values, oneof bytes, nested messages, unknown fields); metamorphic oracle: decode, deep-copy snapshot through reflection, overwrite the caller's buffer with another pattern and re-use it for a second decode: the first message must still equal its snapshot; the generator run probes that enableunsafedecode={false,0,f,F,FALSE,False} gives exactly the code generated without the option (and {1,t,T,TRUE,True} the code of =true); the lazyproto clause runs as a second group in the lazy engine; non-trivial = the decoded value holds >= 1 string/bytes/message/map/unknown item; distinct by (type, bytes)")
	defer rec.Write()
	useRecorder(rec)
	defer func() { t.Log(rec.Summary()); fmt.Print(rec.SurveyReport()) }()
	mine := shardTypes(fmTypes(func(mt *MsgType) bool { return !mt.Info.Unsafe }))
	if len(mine) == 0 {
		return
	}
	// "unless the user explicitly opted into the unsafe mode": an explicit opt-OUT, in any spelling the option parser
	// accepts for false, is the default - the generator run probes that on one file per option set (vgen)
	if shard, _ := ev.Shard(); shard == 0 {
		rec.Eval(1)
		rec.Class("explicit-opt-out-spellings-probed")
		rec.Check(t, "optspelling", map[string]any{}, oracleC10OptSpelling())
	}
	ev.Rapid(t, ev.N(40000, 1000000), 10, func(rt *rapid.T) {
		mt := rapid.SampledFrom(mine).Draw(rt, "type")
		v, _ := canon(genDyn(rt, mt.Desc, 3, genOpts{runtime: mt.Info.Runtime, requiredProb: 10, maxMap: 3}))
		var st varStats
		c := &BCase{Type: mt.Key(), Bytes: encodeVariant(rt, v, varOpts{unknowns: true, permute: true, mapShape: true, explicitDefaults: true}, &st, 0)}
		f, nt := oracleC10(c)
		rec.Eval(1)
		rec.Class("variant/" + mt.Info.Variant)
		if nt {
			rec.NonTrivial(ev.FP(c.Type, c.Bytes))
			rec.Sample(mt.Info.Variant+"/"+mt.Info.Feature, c.sample())
		}
		rec.Check(rt, "bcase", c, f)
	})
}

func replayBCase(prop string, raw json.RawMessage, oracle func(*BCase) *ev.Failure) *ev.Failure {
	var c BCase
	if err := json.Unmarshal(raw, &c); err != nil {
		return ev.Failf(prop+"/replay", "bad case: %v", err)
	}
	loadCorpus()
	if typeByKey[c.Type] == nil {
		return ev.Failf(prop+"/replay-type-missing", "type %s is not part of the generated corpus any more", c.Type)
	}
	return oracle(&c)
}
