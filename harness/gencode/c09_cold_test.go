package gencode

import (
	"bytes"
	"fmt"
	"os"
	"os/exec"
	"strings"
	"sync"
	"testing"

	"github.com/CrowdStrike/csproto"
	"pgregory.net/rapid"

	"verif/harness/internal/ev"
)

// Cold-start rounds of the concurrent clause of C09: the FIRST Size / Marshal calls a process ever makes on a type
// are made concurrently (nothing has been sized, classified or cached before), so lazily initialised state behind
// the generated methods - csproto's per-type classification reached through the extension helpers, for one - is
// initialised under contention.  One fresh process per round (the -race test binary re-executes itself).

const envC09Child = "VERIF_C09_CHILD"

func c09ColdTypes() []*MsgType {
	var out []*MsgType
	for _, mt := range fmTypes(nil) {
		// types whose generated Size/Marshal reach shared lazily-filled state: proto2 extendees (extension helpers)
		// and types with message-typed children (csproto.Size / EncodeNested dispatch)
		if len(extensionsOf(mt.Desc)) > 0 {
			out = append(out, mt)
			continue
		}
		for i := 0; i < mt.Desc.Fields().Len(); i++ {
			if mt.Desc.Fields().Get(i).Message() != nil {
				out = append(out, mt)
				break
			}
		}
	}
	return out
}

func c09ColdChild(t *testing.T, spec string) {
	var k int
	fmt.Sscanf(spec, "cold:%d", &k)
	types := c09ColdTypes()
	bad := ""
	for i, mt := range types {
		if (i+k)%3 != 0 { // a third of the types per round, so that the others stay cold for the types that share state with them
			continue
		}
		b := rapid.Custom(func(rt *rapid.T) []byte {
			_, b := canon(genDyn(rt, mt.Desc, 2, genOpts{runtime: mt.Info.Runtime, requiredProb: 10, maxMap: 1}))
			return b
		}).Example(i + 7*k + 1)
		c := &GCase{Type: mt.Key(), Value: b}
		const copies, perCopy = 3, 2
		msgs := make([]any, copies)
		var dynHasMulti bool
		for j := range msgs {
			_, dyn, m := c.build()
			msgs[j] = m
			dynHasMulti = hasMultiEntryMap(dyn)
		}
		outs := make([][]byte, copies*perCopy)
		errs := make([]error, copies*perCopy)
		panicked := make([]bool, copies*perCopy)
		var wg sync.WaitGroup
		start := make(chan struct{})
		for g := 0; g < copies*perCopy; g++ {
			g := g
			wg.Add(1)
			go func() {
				defer wg.Done()
				defer func() {
					if r := recover(); r != nil {
						panicked[g] = true
					}
				}()
				m := msgs[g%copies]
				fm := m.(fastMsg)
				<-start
				switch (g + k) % 4 {
				case 0:
					outs[g], errs[g] = fm.Marshal()
				case 1:
					outs[g] = make([]byte, fm.Size())
					errs[g] = fm.MarshalTo(outs[g])
				case 2:
					outs[g], errs[g] = csproto.Marshal(m)
				default:
					_ = csproto.Size(m)
					outs[g], errs[g] = fm.Marshal()
				}
			}()
		}
		close(start)
		wg.Wait()
		// only now, sequentially: what a fresh copy marshals to
		_, dyn, twin := c.build()
		if freshFails(mt, dyn) {
			continue
		}
		want, werr := twin.(fastMsg).Marshal()
		for g := range outs {
			if panicked[g] {
				bad = fmt.Sprintf("%s: a concurrent first call panicked, a fresh copy marshals fine", mt.Key())
				break
			}
			if (errs[g] == nil) != (werr == nil) || (werr == nil && !dynHasMulti && !bytes.Equal(outs[g], want)) {
				bad = fmt.Sprintf("%s: concurrent first call %d returned %v %.60x, a fresh copy %v %.60x", mt.Key(), g, errs[g], outs[g], werr, want)
				break
			}
		}
		if bad != "" {
			break
		}
	}
	if bad != "" {
		fmt.Println("C09-CHILD-FAIL " + bad)
		t.Fail()
		return
	}
	fmt.Println("C09-CHILD-OK")
}

func c09ColdRoundOnce(k int) *ev.Failure {
	cmd := exec.Command(os.Args[0], "-test.run", "^TestC09Race$", "-test.count=1")
	cmd.Env = append(os.Environ(), fmt.Sprintf("%s=cold:%d", envC09Child, k), "VERIF_EVIDENCE_PART=", "VERIF_REPLAY=")
	out, err := cmd.CombinedOutput()
	if bytes.Contains(out, []byte("WARNING: DATA RACE")) {
		i := bytes.Index(out, []byte("WARNING: DATA RACE"))
		return ev.Failf("C09/data-race/first-concurrent-use", "race detector report while the first Size / Marshal calls of the process ran concurrently (round %d):\n%.1800s", k, out[i:])
	}
	if bytes.Contains(out, []byte("C09-CHILD-FAIL")) {
		for _, ln := range strings.Split(string(out), "\n") {
			if strings.Contains(ln, "C09-CHILD-FAIL") {
				return ev.Failf("C09/first-concurrent-use-differs", "%s", ln)
			}
		}
	}
	if err != nil || !bytes.Contains(out, []byte("C09-CHILD-OK")) {
		panic(fmt.Sprintf("harness: re-executed child neither passed nor reported a failure: %v\n%.1200s", err, out))
	}
	return nil
}

func c09ColdRounds(t *testing.T, rec *ev.Recorder) {
	shard, shards := ev.Shard()
	total := 6
	if ev.Thorough() {
		total = 60
	}
	n := len(c09ColdTypes())
	for k := 0; k < total; k++ {
		if k%shards != shard {
			continue
		}
		f := c09ColdRoundOnce(k)
		rec.Eval(int64(n / 3 * 6))
		rec.NonTrivialEnum(int64(n / 3))
		rec.Class("cold-start-round")
		rec.Sample("cold-start", map[string]any{"k": k, "types": n / 3, "goroutines_per_type": 6})
		rec.Check(t, "racecold", map[string]any{"k": k}, f)
	}
}
