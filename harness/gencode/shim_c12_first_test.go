package gencode

import (
	"bytes"
	"fmt"
	"os"
	"os/exec"
	"reflect"
	"runtime"
	"strings"
	"sync"
	"testing"

	"github.com/CrowdStrike/csproto"
	"google.golang.org/protobuf/reflect/protoreflect"
	"google.golang.org/protobuf/types/dynamicpb"
	"pgregory.net/rapid"

	"verif/harness/internal/ev"
)

// First-use clause of C12: what the FIRST csproto call involving a message type was (an extension accessor or
// another entry point handed a typed nil pointer, or a real message) must not influence what the extension
// accessors do with real messages of that type afterwards.  csproto caches a per-type classification, so the
// clause needs a fresh process per round: the test binary re-executes itself.

const envC12Child = "VERIF_C12_CHILD"

type c12FirstOp struct {
	name string
	run  func(nilPtr, msg, desc any)
}

var c12FirstOps = []c12FirstOp{
	{"HasExtension-of-nil-pointer", func(n, m, d any) { csproto.HasExtension(n, d) }},
	{"GetExtension-of-nil-pointer", func(n, m, d any) { _, _ = csproto.GetExtension(n, d) }},
	{"ClearExtension-of-nil-pointer", func(n, m, d any) { csproto.ClearExtension(n, d) }},
	{"ClearAllExtensions-of-nil-pointer", func(n, m, d any) { csproto.ClearAllExtensions(n) }},
	{"RangeExtensions-of-nil-pointer", func(n, m, d any) {
		_ = csproto.RangeExtensions(n, func(any, string, int32) error { return nil })
	}},
	{"SetExtension-of-nil-pointer", func(n, m, d any) { _ = csproto.SetExtension(n, d, nil) }},
	{"MsgType-of-nil-pointer", func(n, m, d any) { csproto.MsgType(n) }},
	{"Equal-of-nil-pointers", func(n, m, d any) { csproto.Equal(n, n) }},
	{"HasExtension-of-message", func(n, m, d any) { csproto.HasExtension(m, d) }},
	{"Marshal-of-nil-pointer", func(n, m, d any) { _, _ = csproto.Marshal(n) }},
}

func c12FirstNames() []string {
	var out []string
	for _, o := range c12FirstOps {
		out = append(out, o.name)
	}
	return out
}

// c12FixedProgram: Set every extension of mt to an example value, then Has/Get/Range, Clear one, ClearAll.
func c12FixedProgram(mt *MsgType, seed int) *XCase {
	val := rapid.Custom(func(rt *rapid.T) []byte {
		holder := dynamicpb.NewMessage(mt.Desc)
		for _, xt := range extensionsOf(mt.Desc) {
			fd := xt.TypeDescriptor()
			if fd.Message() != nil {
				holder.Set(fd, protoreflect.ValueOfMessage(genChild(rt, fd.Message(), 1, genOpts{requiredProb: 10})))
			} else {
				holder.Set(fd, jsonSafeValue(fd, genScalar(rt, fd)))
			}
		}
		b, _ := refMarshal.Marshal(holder)
		return b
	}).Example(seed)
	c := &XCase{Type: mt.Key()}
	n := len(extHandles(mt))
	for i := 0; i < n; i++ {
		c.Prog = append(c.Prog, XOp{Kind: "set", Ext: i, Value: val}, XOp{Kind: "has", Ext: i}, XOp{Kind: "get", Ext: i})
	}
	c.Prog = append(c.Prog, XOp{Kind: "range"}, XOp{Kind: "number"}, XOp{Kind: "clear", Ext: 0}, XOp{Kind: "range"}, XOp{Kind: "set", Ext: 0, Value: val}, XOp{Kind: "clearall"}, XOp{Kind: "range"})
	return c
}

// c12ConcurrentFirstUseChild: for every type, 8 goroutines released together run the fixed program on a message of
// their own - the first calls involving that type in this process happen at once.
func c12ConcurrentFirstUseChild(t *testing.T, spec string) {
	var k int
	fmt.Sscanf(spec, "conc:%d", &k)
	runtime.GOMAXPROCS([]int{16, 4, 2}[k%3])
	for i, mt := range extTypes() {
		progs := make([]*XCase, 8)
		for g := range progs {
			progs[g] = c12FixedProgram(mt, i+g+1)
		}
		fails := make([]*ev.Failure, len(progs))
		var wg sync.WaitGroup
		start := make(chan struct{})
		for g := range progs {
			g := g
			wg.Add(1)
			go func() {
				defer wg.Done()
				<-start
				fails[g], _ = oracleC12(progs[g])
			}()
		}
		close(start)
		wg.Wait()
		for g, f := range fails {
			if f != nil {
				fmt.Printf("C12-CHILD-FAIL first use = concurrent-first-use; goroutine %d of 8, on %s: %s: %.400s\n", g, mt.Key(), f.Sig, strings.ReplaceAll(f.Detail, "\n", " "))
				t.Fail()
				return
			}
		}
	}
	fmt.Println("C12-CHILD-OK")
}

func c12FirstUseChild(t *testing.T, spec string) {
	if strings.HasPrefix(spec, "conc:") {
		c12ConcurrentFirstUseChild(t, spec)
		return
	}
	var k int
	fmt.Sscanf(spec, "first:%d", &k)
	for i, mt := range extTypes() {
		op := c12FirstOps[(i+k)%len(c12FirstOps)]
		hs := extHandles(mt)
		msg := mt.New()
		nilPtr := reflect.Zero(reflect.TypeOf(msg)).Interface()
		func() {
			defer func() { _ = recover() }() // what the call on a nil pointer does is not the subject here
			op.run(nilPtr, msg, hs[0].desc)
		}()
		if f, _ := oracleC12(c12FixedProgram(mt, i+1)); f != nil {
			fmt.Printf("C12-CHILD-FAIL first use = %s; afterwards, on %s: %s: %.400s\n", op.name, mt.Key(), f.Sig, strings.ReplaceAll(f.Detail, "\n", " "))
			t.Fail()
			return
		}
	}
	fmt.Println("C12-CHILD-OK")
}

func c12FirstUseRoundOnce(k int) *ev.Failure {
	spec := fmt.Sprintf("first:%d", k)
	if k >= 1000 { // rounds 1000.. are the concurrent ones
		spec = fmt.Sprintf("conc:%d", k-1000)
	}
	cmd := exec.Command(os.Args[0], "-test.run", "^TestC12$", "-test.count=1")
	cmd.Env = append(os.Environ(), fmt.Sprintf("%s=%s", envC12Child, spec), "VERIF_EVIDENCE_PART=", "VERIF_REPLAY=")
	out, err := cmd.CombinedOutput()
	if bytes.Contains(out, []byte("C12-CHILD-FAIL")) {
		ln := ""
		for _, l := range strings.Split(string(out), "\n") {
			if strings.Contains(l, "C12-CHILD-FAIL") {
				ln = l
				break
			}
		}
		op := "?"
		if i := strings.Index(ln, "first use = "); i >= 0 {
			op = strings.SplitN(ln[i+len("first use = "):], ";", 2)[0]
		}
		return ev.Failf("C12/accessors-depend-on-first-use/"+op, "%s", ln)
	}
	if err != nil || !bytes.Contains(out, []byte("C12-CHILD-OK")) {
		panic(fmt.Sprintf("harness: re-executed child neither passed nor reported a failure: %v\n%.800s", err, out))
	}
	return nil
}

// c12FirstUseRounds runs this shard's share of the first-use rounds.
func c12FirstUseRounds(t *testing.T, rec *ev.Recorder) {
	shard, shards := ev.Shard()
	nTypes := len(extTypes())
	total := len(c12FirstOps)
	if ev.Thorough() {
		total *= 4
	}
	for k := 0; k < total; k++ {
		if k%shards != shard {
			continue
		}
		f := c12FirstUseRoundOnce(k)
		rec.Eval(int64(nTypes))
		rec.NonTrivialEnum(int64(nTypes))
		rec.Class("first-use-order-round")
		rec.Sample("first-use", map[string]any{"k": k, "types": nTypes, "ops": c12FirstNames()})
		rec.Check(t, "firstuse", map[string]any{"k": k}, f)
	}
	// ... and rounds in which the first use of every type is made by 8 goroutines at once
	conc := 8
	if ev.Thorough() {
		conc = 80
	}
	for k := 0; k < conc; k++ {
		if k%shards != shard {
			continue
		}
		f := c12FirstUseRoundOnce(1000 + k)
		rec.Eval(int64(nTypes * 8))
		rec.NonTrivialEnum(int64(nTypes))
		rec.Class("concurrent-first-use-round")
		rec.Check(t, "firstuse", map[string]any{"k": 1000 + k}, f)
	}
}
