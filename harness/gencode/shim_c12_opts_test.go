package gencode

import (
	"fmt"
	"reflect"

	"github.com/CrowdStrike/csproto"
	gogo "github.com/gogo/protobuf/proto"
	gogodesc "github.com/gogo/protobuf/protoc-gen-gogo/descriptor"
	golang "github.com/golang/protobuf/proto"
	"google.golang.org/protobuf/proto"
	"google.golang.org/protobuf/types/descriptorpb"

	"verif/harness/internal/ev"
)

// "descriptor.proto options for gogo and google" (C12's quantifier): a custom option - a proto2 extension of
// google.protobuf.XxxOptions - on each of the nine option messages of both runtimes, driven through csproto and,
// on a twin, through the owning runtime's own API.

func c12OptionsSweep() *ev.Failure {
	google := []proto.Message{&descriptorpb.FileOptions{}, &descriptorpb.MessageOptions{}, &descriptorpb.FieldOptions{}, &descriptorpb.OneofOptions{},
		&descriptorpb.EnumOptions{}, &descriptorpb.EnumValueOptions{}, &descriptorpb.ServiceOptions{}, &descriptorpb.MethodOptions{}, &descriptorpb.ExtensionRangeOptions{}}
	for i, tmpl := range google {
		name := string(tmpl.ProtoReflect().Descriptor().Name())
		sig := "C12/descriptor-options/google/" + name
		num := int32(50001 + i)
		mk := func() proto.Message { return tmpl.ProtoReflect().New().Interface() }
		ext := &golang.ExtensionDesc{ExtendedType: mk().(golang.Message), ExtensionType: (*string)(nil), Field: num, //nolint:staticcheck
			Name: "vf.opts." + name + "_label", Tag: fmt.Sprintf("bytes,%d,opt,name=%s_label", num, name)}
		live, twin := mk(), mk()
		if f := func() (fail *ev.Failure) {
			defer func() {
				if r := recover(); r != nil {
					fail = ev.Failf(sig, "panic: %v", r)
				}
			}()
			if n, err := csproto.ExtensionFieldNumber(ext); err != nil || int32(n) != num {
				return ev.Failf(sig, "ExtensionFieldNumber = %d, %v; declared %d", n, err, num)
			}
			if csproto.HasExtension(live, ext) != proto.HasExtension(twin, ext) {
				return ev.Failf(sig, "HasExtension on a fresh message differs from the runtime")
			}
			if err := csproto.SetExtension(live, ext, "hello"); err != nil {
				return ev.Failf(sig, "SetExtension: %v", err)
			}
			proto.SetExtension(twin, ext, "hello")
			if got, want := csproto.HasExtension(live, ext), proto.HasExtension(twin, ext); got != want || !got {
				return ev.Failf(sig, "after SetExtension HasExtension = %v, the runtime on the twin %v", got, want)
			}
			gv, err := csproto.GetExtension(live, ext)
			if err != nil || fmt.Sprint(gv) != fmt.Sprint(proto.GetExtension(twin, ext)) {
				return ev.Failf(sig, "GetExtension = %v, %v; the runtime returns %v", gv, err, proto.GetExtension(twin, ext))
			}
			var seen []int32
			if err := csproto.RangeExtensions(live, func(_ any, _ string, f int32) error { seen = append(seen, f); return nil }); err != nil || len(seen) != 1 || seen[0] != num {
				return ev.Failf(sig, "RangeExtensions visited %v (%v), set: [%d]", seen, err, num)
			}
			if !proto.Equal(live, twin) {
				return ev.Failf(sig, "the message differs from its twin driven through the runtime")
			}
			csproto.ClearExtension(live, ext)
			proto.ClearExtension(twin, ext)
			if csproto.HasExtension(live, ext) || !proto.Equal(live, twin) {
				return ev.Failf(sig, "after ClearExtension HasExtension = %v, equal to the twin = %v", csproto.HasExtension(live, ext), proto.Equal(live, twin))
			}
			_ = csproto.SetExtension(live, ext, "again")
			csproto.ClearAllExtensions(live)
			if b, _ := proto.Marshal(live); len(b) != 0 {
				return ev.Failf(sig, "after ClearAllExtensions the message still marshals to %x", b)
			}
			return nil
		}(); f != nil {
			return f
		}
	}
	gogos := []gogo.Message{&gogodesc.FileOptions{}, &gogodesc.MessageOptions{}, &gogodesc.FieldOptions{}, &gogodesc.OneofOptions{}, &gogodesc.EnumOptions{},
		&gogodesc.EnumValueOptions{}, &gogodesc.ServiceOptions{}, &gogodesc.MethodOptions{}, &gogodesc.ExtensionRangeOptions{}}
	for i, tmpl := range gogos {
		name := reflect.TypeOf(tmpl).Elem().Name()
		sig := "C12/descriptor-options/gogo/" + name
		num := int32(51001 + i)
		mk := func() gogo.Message { return reflect.New(reflect.TypeOf(tmpl).Elem()).Interface().(gogo.Message) }
		ext := &gogo.ExtensionDesc{ExtendedType: mk(), ExtensionType: (*string)(nil), Field: num, Name: "vf.opts." + name + "_label", Tag: fmt.Sprintf("bytes,%d,opt,name=%s_label", num, name)}
		live, twin := mk(), mk()
		if f := func() (fail *ev.Failure) {
			defer func() {
				if r := recover(); r != nil {
					fail = ev.Failf(sig, "panic: %v", r)
				}
			}()
			if n, err := csproto.ExtensionFieldNumber(ext); err != nil || int32(n) != num {
				return ev.Failf(sig, "ExtensionFieldNumber = %d, %v; declared %d", n, err, num)
			}
			v := "hello"
			if err := csproto.SetExtension(live, ext, &v); err != nil {
				return ev.Failf(sig, "SetExtension: %v", err)
			}
			if err := gogo.SetExtension(twin, ext, &v); err != nil {
				panic("harness: gogo rejects the value: " + err.Error())
			}
			if got, want := csproto.HasExtension(live, ext), gogo.HasExtension(twin, ext); got != want || !got {
				return ev.Failf(sig, "after SetExtension HasExtension = %v, the runtime on the twin %v", got, want)
			}
			gv, err := csproto.GetExtension(live, ext)
			tv, terr := gogo.GetExtension(twin, ext)
			if (err == nil) != (terr == nil) || normaliseExt(gv) != normaliseExt(tv) {
				return ev.Failf(sig, "GetExtension = %s, %v; the runtime returns %s, %v", normaliseExt(gv), err, normaliseExt(tv), terr)
			}
			if !gogo.Equal(live, twin) {
				return ev.Failf(sig, "the message differs from its twin driven through the runtime")
			}
			csproto.ClearExtension(live, ext)
			gogo.ClearExtension(twin, ext)
			if csproto.HasExtension(live, ext) != gogo.HasExtension(twin, ext) || !gogo.Equal(live, twin) {
				return ev.Failf(sig, "after ClearExtension the message differs from its twin")
			}
			return nil
		}(); f != nil {
			return f
		}
	}
	return nil
}
