//go:build race

package gencode

const raceEnabled = true
