package gencode

import (
	"bytes"
	"encoding/json"
	"fmt"
	"sort"
	"strings"
	"testing"

	"google.golang.org/protobuf/proto"
	"google.golang.org/protobuf/reflect/protoreflect"
	"google.golang.org/protobuf/types/dynamicpb"

	"verif/harness/internal/ev"
	"verif/harness/internal/refwire"
)

// ---------------- C16: the generator is total, deterministic and emits compiling code ----------------

// PCase identifies one plug-in run (the request itself is rebuilt by cmd/vgen from the schema corpus).
type PkgCase struct {
	Variant string `json:"variant"`
	File    string `json:"file"`
}

func pkgSig(kind string, fi *FileInfo) string {
	opts := fi.APIv
	if fi.PerMsg {
		opts += "+permessage"
	}
	if fi.Unsafe {
		opts += "+unsafe"
	}
	return "C16/" + kind + "/" + fi.Runtime + "-" + opts + "/" + fi.File
}

func oracleC16(fi *FileInfo) *ev.Failure {
	switch {
	case fi.MsgGenErr != "":
		// the message-type generator (a fixture) failed: harness trouble, not a verdict
		panic("harness: fixture generator failed for " + fi.Variant + "/" + fi.File + ": " + fi.MsgGenErr)
	case fi.FMErr != "" && strings.Contains(fi.FMErr, "Tried to write the same file twice"):
		return ev.Failf(pkgSig("file-written-twice", fi), "%s", fi.FMErr)
	case fi.FMErr != "":
		return ev.Failf(pkgSig("plugin-error", fi), "protoc-gen-fastmarshal (%s) on %s: %.400s", fi.FMParam, fi.ProtoFile, fi.FMErr)
	case fi.NonDeterm != "":
		return ev.Failf(pkgSig("non-deterministic", fi), "%s", fi.NonDeterm)
	case fi.OptSpelling != "":
		return ev.Failf(pkgSig("option-spelling", fi), "%s", fi.OptSpelling)
	case fi.ParseErr != "":
		return ev.Failf(pkgSig("output-does-not-parse", fi), "%.400s", fi.ParseErr)
	case fmt.Sprint(fi.FMFiles) != fmt.Sprint(fi.Expected):
		return ev.Failf(pkgSig("file-names", fi), "emitted %v, the documented names are %v", fi.FMFiles, fi.Expected)
	case fi.BuildErr != "":
		return ev.Failf(pkgSig("output-does-not-compile", fi), "%.600s", fi.BuildErr)
	case !fi.Usable:
		panic("harness: package not usable without a recorded reason: " + fi.Variant + "/" + fi.File)
	}
	return nil
}

func TestC16(t *testing.T) {
	rec := ev.New("C16", "case = (schema file of the corpus [feature matrix + seeded random schemas], runtime variant, option combination {apiversion v1|v2} x {single file, file per message} x {unsafe decode on/off}); the working-tree plug-in is run twice on the identical request in separate processes (different working directory, TZ, HOME, > 1 s apart); oracle: no plug-in error, byte-identical responses, every file name emitted once and equal to the documented pattern, every file parses (go/parser), the package builds together with the message types of the matching runtime (go build per package); non-trivial = a schema using at least one feature beyond singular scalars; distinct by (file, variant)")
	defer rec.Write()
	useRecorder(rec)
	defer func() { t.Log(rec.Summary()); fmt.Print(rec.SurveyReport()) }()
	loadCorpus()
	shard, shards := ev.Shard()
	n := 0
	for i, fi := range manifest.Files {
		if fi.Plain || i%shards != shard {
			continue
		}
		n++
		rec.Eval(1)
		rec.Class("variant/" + fi.Variant)
		rec.Class("syntax/" + fi.Syntax)
		if fi.File != "p2opt" && fi.File != "p3imp" {
			rec.NonTrivial(ev.FP(fi.Variant, fi.File))
		}
		rec.Sample(fi.Variant, map[string]any{"variant": fi.Variant, "file": fi.ProtoFile, "feature": fi.Feature, "parameter": fi.FMParam, "messages": len(fi.Messages), "emitted": fi.FMFiles})
		rec.Check(t, "pkg", &PkgCase{Variant: fi.Variant, File: fi.File}, oracleC16(fi))
	}
	rec.Extra("packages", n)
}

func replayPkg(raw json.RawMessage) *ev.Failure {
	var c PkgCase
	if err := json.Unmarshal(raw, &c); err != nil {
		return ev.Failf("C16/replay", "bad case: %v", err)
	}
	loadCorpus()
	for _, fi := range manifest.Files {
		if fi.Variant == c.Variant && fi.File == c.File {
			return oracleC16(fi)
		}
	}
	return ev.Failf("C16/replay-package-missing", "package %s/%s is not part of the generated corpus", c.Variant, c.File)
}

// ---------------- C17: proto2 required fields are enforced in both directions ----------------

// reqSlot is the path to one required field reachable from a message.
type reqSlot struct {
	path []protoreflect.FieldDescriptor // message-typed fields leading to the owner of the required field
	fd   protoreflect.FieldDescriptor
}

func (s reqSlot) String() string {
	var parts []string
	for _, p := range s.path {
		pos := "field"
		switch {
		case p.IsMap():
			pos = "map"
		case p.IsList():
			pos = "list"
		case p.ContainingOneof() != nil:
			pos = "oneof"
		}
		parts = append(parts, fmt.Sprintf("%s(%s)", p.Name(), pos))
	}
	return strings.Join(append(parts, string(fd2name(s.fd))), ".")
}

func fd2name(fd protoreflect.FieldDescriptor) protoreflect.Name { return fd.Name() }

func requiredSlots(md protoreflect.MessageDescriptor, path []protoreflect.FieldDescriptor, depth int, seen map[protoreflect.FullName]int) []reqSlot {
	var out []reqSlot
	if depth > 3 || seen[md.FullName()] > 1 {
		return nil
	}
	seen[md.FullName()]++
	defer func() { seen[md.FullName()]-- }()
	for i := 0; i < md.Fields().Len(); i++ {
		fd := md.Fields().Get(i)
		if fd.Cardinality() == protoreflect.Required {
			out = append(out, reqSlot{path: append([]protoreflect.FieldDescriptor{}, path...), fd: fd})
		}
		var child protoreflect.MessageDescriptor
		if fd.IsMap() {
			child = fd.MapValue().Message()
		} else {
			child = fd.Message()
		}
		if child != nil {
			out = append(out, requiredSlots(child, append(append([]protoreflect.FieldDescriptor{}, path...), fd), depth+1, seen)...)
		}
	}
	return out
}

// buildFull creates a message in which every field on a path to a required field exists and every
// required field is set to the vi-th boundary value of its kind (index 0 is the zero value: a proto2 field
// set to 0, "", false or empty bytes is set).
func buildFull(md protoreflect.MessageDescriptor, depth int, vi int) *dynamicpb.Message {
	m := dynamicpb.NewMessage(md)
	chosen := map[protoreflect.FullName]bool{}
	for i := 0; i < md.Fields().Len(); i++ {
		fd := md.Fields().Get(i)
		if od := fd.ContainingOneof(); od != nil && !od.IsSynthetic() {
			if chosen[od.FullName()] || fd.Message() == nil {
				continue
			}
			chosen[od.FullName()] = true
		}
		var child protoreflect.MessageDescriptor
		if fd.IsMap() {
			child = fd.MapValue().Message()
		} else {
			child = fd.Message()
		}
		switch {
		case child != nil && depth < 3:
			sub := protoreflect.ValueOfMessage(buildFull(child, depth+1, vi))
			switch {
			case fd.IsMap():
				mp := m.NewField(fd).Map()
				mp.Set(boundaryScalars(fd.MapKey().Kind())[1].MapKey(), sub)
				m.Set(fd, protoreflect.ValueOfMap(mp))
			case fd.IsList():
				l := m.NewField(fd).List()
				l.Append(sub)
				m.Set(fd, protoreflect.ValueOfList(l))
			default:
				m.Set(fd, sub)
			}
		case child == nil && fd.Cardinality() == protoreflect.Required:
			vs := boundaryFor(fd)
			m.Set(fd, vs[vi%len(vs)])
		}
	}
	return m
}

// clearSlot unsets one required field; reports false if the path does not exist in m.
func clearSlot(m protoreflect.Message, s reqSlot) bool {
	cur := m
	for _, p := range s.path {
		// descriptors of equal full name are interchangeable here
		fd := cur.Descriptor().Fields().ByNumber(p.Number())
		if fd == nil || !cur.Has(fd) {
			return false
		}
		switch {
		case fd.IsMap():
			var first protoreflect.Message
			cur.Get(fd).Map().Range(func(_ protoreflect.MapKey, v protoreflect.Value) bool { first = v.Message(); return false })
			if first == nil {
				return false
			}
			cur = first
		case fd.IsList():
			if cur.Get(fd).List().Len() == 0 {
				return false
			}
			cur = cur.Get(fd).List().Get(0).Message()
		default:
			cur = cur.Mutable(fd).Message()
		}
	}
	fd := cur.Descriptor().Fields().ByNumber(s.fd.Number())
	cur.Clear(fd)
	return true
}

// RCase: a type, a value (AllowPartial reference encoding) - the subset of unset required fields is
// visible in the value itself.
type RCase struct {
	Type  string   `json:"type"`
	Value []byte   `json:"value"`
	Unset []string `json:"unset"`
	Empty bool     `json:"empty_input,omitempty"`
}

func oracleC17(c *RCase) *ev.Failure {
	loadCorpus()
	mt := typeByKey[c.Type]
	if mt == nil {
		return ev.Failf("C17/replay-type-missing", "type %s is not part of the generated corpus any more", c.Type)
	}
	dyn := decodeRef(mt.Desc, c.Value)
	initErr := proto.CheckInitialized(dyn)
	// direction 1: Marshal
	m := mt.New()
	FromDynamic(dyn, m)
	var b []byte
	var err error
	if f := guard("C17", mt, "Marshal", func() { b, err = m.(fastMsg).Marshal() }); f != nil {
		return f
	}
	unset := strings.Join(c.Unset, ",")
	if initErr != nil && err == nil {
		return ev.Failf(sigOf("C17", "marshal-accepts-missing-required/"+posOf(c.Unset), mt), "required field(s) [%s] unset (%v) but Marshal returned %d bytes and no error", unset, initErr, len(b))
	}
	if initErr == nil && err != nil {
		return ev.Failf(sigOf("C17", "marshal-rejects-complete-message", mt), "all required fields are set but Marshal failed: %v", err)
	}
	// direction 2: Unmarshal of the reference's (partial) encoding
	strict := proto.UnmarshalOptions{Resolver: dynTypes}.Unmarshal(c.Value, dynamicpb.NewMessage(mt.Desc))
	m2 := mt.New()
	var uerr error
	if f := guard("C17", mt, "Unmarshal", func() { uerr = m2.(fastMsg).Unmarshal(append([]byte{}, c.Value...)) }); f != nil {
		return f
	}
	if strict != nil && uerr == nil {
		kind := "unmarshal-accepts-missing-required/" + posOf(c.Unset)
		if len(c.Value) == 0 {
			kind = "unmarshal-accepts-missing-required/empty-input"
		}
		return ev.Failf(sigOf("C17", kind, mt), "bytes %.60x lack required field(s) [%s] (%v) but Unmarshal returned no error", c.Value, unset, strict)
	}
	if strict == nil && uerr != nil {
		return ev.Failf(sigOf("C17", "unmarshal-rejects-complete-message", mt), "bytes %.60x carry every required field but Unmarshal failed: %v", c.Value, uerr)
	}
	// the same bytes into a receiver that already holds a complete message (a second call on one object): what the
	// receiver held before must not change the verdict
	if prime, perr := refMarshal.Marshal(buildFull(mt.Desc, 0, 1)); perr == nil {
		m3 := mt.New()
		var e1, e2 error
		if f := guard("C17", mt, "Unmarshal", func() {
			if e1 = m3.(fastMsg).Unmarshal(append([]byte{}, prime...)); e1 == nil {
				e2 = m3.(fastMsg).Unmarshal(append([]byte{}, c.Value...))
			}
		}); f != nil {
			return f
		}
		if e1 == nil && strict != nil && e2 == nil {
			kind := "unmarshal-into-used-receiver-accepts-missing-required/" + posOf(c.Unset)
			if len(c.Value) == 0 {
				kind = "unmarshal-into-used-receiver-accepts-missing-required/empty-input"
			}
			return ev.Failf(sigOf("C17", kind, mt), "bytes %.60x lack required field(s) [%s] (%v) but Unmarshal into a message that had been filled by an earlier Unmarshal returned no error", c.Value, unset, strict)
		}
		if e1 == nil && strict == nil && e2 != nil {
			return ev.Failf(sigOf("C17", "unmarshal-into-used-receiver-rejects-complete-message", mt), "bytes %.60x carry every required field but Unmarshal into a used receiver failed: %v", c.Value, e2)
		}
	}
	return nil
}

// posOf names the position of the (first) unset required field: own | field | list | map | oneof.
func posOf(unset []string) string {
	if len(unset) == 0 {
		return "none"
	}
	s := unset[0]
	for _, p := range []string{"(map)", "(oneof)", "(list)", "(field)"} {
		if strings.Contains(s, p) {
			return strings.Trim(p, "()")
		}
	}
	return "own"
}

func TestC17(t *testing.T) {
	rec := ev.New("C17", "case = (generated type - proto2, or proto3 with imported proto2 children - with required fields of its own or in children reached through a field / required field / list / map / oneof, subset of those required fields left unset); every subset is enumerated per type (up to 2^8) with the required scalars set to the zero value of their kind and to 1, and the complete message and every single-field subset with 7 further boundary values, plus the completely empty message and the empty input, plus inputs that carry the unset field's number with a mismatching wire type, plus every subset's encoding repeated two and three times (present fields occur repeatedly); oracle = reference verdict: Marshal fails <=> proto.CheckInitialized fails; generated Unmarshal of the reference's AllowPartial encoding fails <=> the strict reference Unmarshal fails, into a fresh receiver and into one that a complete message was unmarshaled into before; non-trivial = >= 1 required field unset; distinct by (type, subset, value choice)")
	defer rec.Write()
	useRecorder(rec)
	defer func() { t.Log(rec.Summary()); fmt.Print(rec.SurveyReport()) }()
	types := fmTypes(func(mt *MsgType) bool {
		// (also proto3 messages whose children are proto2 messages with required fields)
		return len(requiredSlots(mt.Desc, nil, 0, map[protoreflect.FullName]int{})) > 0
	})
	requireUsable(t, types, 20)
	mine := shardTypes(types)
	rec.Extra("types_with_required_fields", len(types))
	exhaustive := true
	for _, mt := range mine {
		slots := requiredSlots(mt.Desc, nil, 0, map[protoreflect.FullName]int{})
		if len(slots) > 8 {
			slots = slots[:8]
			exhaustive = false
		}
		for vi := 0; vi < 9; vi++ {
			for mask := 0; mask < 1<<len(slots); mask++ {
				// every subset with the first two value choices (zero value, 1); for the other boundary
				// values the complete message and the single-field subsets
				if vi > 1 && mask&(mask-1) != 0 {
					continue
				}
				full := buildFull(mt.Desc, 0, vi)
				var unset []string
				for i, s := range slots {
					if mask&(1<<i) != 0 && clearSlot(full, s) {
						unset = append(unset, s.String())
					}
				}
				b, err := refMarshal.Marshal(full)
				if err != nil {
					panic(err)
				}
				c := &RCase{Type: mt.Key(), Value: b, Unset: unset}
				rec.Eval(1)
				rec.Class("variant/" + mt.Info.Variant)
				rec.Class(fmt.Sprintf("required-value-choice/%d", vi))
				if len(unset) > 0 {
					rec.NonTrivialEnum(1)
					rec.Class("position/" + posOf(unset))
					rec.Sample(mt.Info.Variant+"/"+posOf(unset), map[string]any{"type": c.Type, "unset": unset, "value_hex": fmt.Sprintf("%.80x", b)})
				} else {
					rec.Class("complete-message")
				}
				rec.Check(t, "rcase", c, oracleC17(c))
				// the same encoding two and three times over (every field that is present occurs several times: legal,
				// the last occurrence of a singular field wins): what is missing is still missing
				if vi <= 1 && len(b) > 0 {
					for reps := 2; reps <= 3; reps++ {
						c3 := &RCase{Type: mt.Key(), Value: bytes.Repeat(b, reps), Unset: unset}
						rec.Eval(1)
						if len(unset) > 0 {
							rec.NonTrivialEnum(1)
						}
						rec.Class("present-fields-occur-repeatedly")
						rec.Check(t, "rcase", c3, oracleC17(c3))
					}
				}
				// the unset field's NUMBER is on the wire after all, but with another wire type (a conforming reader
				// keeps that as an unknown field): the required field is still missing
				if vi <= 1 && mask != 0 && mask&(mask-1) == 0 {
					for i, s := range slots {
						if mask&(1<<i) == 0 || len(s.path) != 0 || s.fd.Message() != nil {
							continue
						}
						for _, alt := range [][]byte{
							refwire.AppendLen(refwire.AppendKey(nil, int(s.fd.Number()), refwire.WTLen), nil),
							refwire.AppendLen(refwire.AppendKey(nil, int(s.fd.Number()), refwire.WTLen), []byte{0x10, 0x05}),
							refwire.AppendFixed32(refwire.AppendKey(nil, int(s.fd.Number()), refwire.WTFixed32), 7),
							refwire.AppendVarint(refwire.AppendKey(nil, int(s.fd.Number()), refwire.WTVarint), 1),
						} {
							if wt := int(alt[0] & 7); wt == wireTypeOf(s.fd.Kind()) { // (a varint's low bits come first)
								continue // (that IS the field's wire type: not a mismatch)
							}
							c2 := &RCase{Type: mt.Key(), Value: append(append([]byte{}, b...), alt...), Unset: unset}
							rec.Eval(1)
							rec.NonTrivialEnum(1)
							rec.Class("unset-field-number-present-with-another-wire-type")
							rec.Check(t, "rcase", c2, oracleC17(c2))
						}
					}
				}
			}
		}
		// the empty message and the empty input
		c := &RCase{Type: mt.Key(), Value: []byte{}, Unset: []string{"(everything)"}, Empty: true}
		rec.Eval(1)
		rec.NonTrivialEnum(1)
		rec.Class("empty-message-and-input")
		rec.Check(t, "rcase", c, oracleC17(c))
	}
	sort.Strings(nil)
	rec.Extra("exhaustive_subsets", exhaustive)
}
