package gencode

import (
	"encoding/json"
	"fmt"
	"reflect"
	"sort"
	"strings"
	"sync"

	"github.com/CrowdStrike/csproto"
	gogo "github.com/gogo/protobuf/proto"
	golang "github.com/golang/protobuf/proto"
	"google.golang.org/protobuf/proto"
	"google.golang.org/protobuf/reflect/protodesc"
	"google.golang.org/protobuf/reflect/protoreflect"
	"google.golang.org/protobuf/reflect/protoregistry"
	"google.golang.org/protobuf/runtime/protoimpl"
	"google.golang.org/protobuf/types/descriptorpb"
	"google.golang.org/protobuf/types/dynamicpb"

	"verif/harness/gencode/gen"
)

// FileInfo mirrors cmd/vgen's manifest entry.
type FileInfo struct {
	Variant      string   `json:"variant"`
	Runtime      string   `json:"runtime"`
	File         string   `json:"file"`
	Feature      string   `json:"feature"`
	ProtoFile    string   `json:"proto_file"`
	ProtoPackage string   `json:"proto_package"`
	GoImport     string   `json:"go_import"`
	Syntax       string   `json:"syntax"`
	Messages     []string `json:"messages"`
	APIv         string   `json:"api_version"`
	PerMsg       bool     `json:"file_per_message"`
	Unsafe       bool     `json:"unsafe_decode"`
	Plain        bool     `json:"plain"`
	FMParam      string   `json:"fm_param"`
	MsgGenErr    string   `json:"msg_gen_err"`
	FMErr        string   `json:"fm_err"`
	FMFiles      []string `json:"fm_files"`
	Expected     []string `json:"expected_fm_files"`
	NonDeterm    string   `json:"non_deterministic"`
	OptSpelling  string   `json:"option_spelling"`
	ParseErr     string   `json:"parse_err"`
	BuildErr     string   `json:"build_err"`
	PlainBuildOK bool     `json:"plain_build_ok"`
	Usable       bool     `json:"usable"`
}

// MsgType is one generated message type of one variant.
type MsgType struct {
	Info *FileInfo
	Full string                         // full proto name
	Desc protoreflect.MessageDescriptor // from the corpus' own descriptor set (independent of generated code)
	goT  reflect.Type                   // *T
}

func (mt *MsgType) String() string { return mt.Full }

// Key is a short, stable identifier: variant/file/Message.
func (mt *MsgType) Key() string {
	return mt.Info.Variant + "/" + mt.Info.File + "/" + strings.TrimPrefix(mt.Full, mt.Info.ProtoPackage+".")
}

// Short is the message name inside its file.
func (mt *MsgType) Short() string { return strings.TrimPrefix(mt.Full, mt.Info.ProtoPackage+".") }

var (
	corpusOnce  sync.Once
	corpusFiles *protoregistry.Files
	dynTypes    *dynamicpb.Types
	manifest    struct {
		Files []*FileInfo `json:"files"`
	}
	allTypes      []*MsgType
	typeByKey     = map[string]*MsgType{}
	extsByMessage = map[protoreflect.FullName][]protoreflect.ExtensionType{}
)

func loadCorpus() {
	corpusOnce.Do(func() {
		if err := json.Unmarshal(gen.ManifestJSON, &manifest); err != nil {
			panic(err)
		}
		var set descriptorpb.FileDescriptorSet
		if err := proto.Unmarshal(gen.CorpusSet, &set); err != nil {
			panic(err)
		}
		corpusFiles = new(protoregistry.Files)
		for _, fdp := range set.File {
			fd, err := protodesc.NewFile(fdp, resolver{corpusFiles})
			if err != nil {
				panic(fmt.Sprintf("harness: corpus file %s is not a valid descriptor: %v", fdp.GetName(), err))
			}
			if err := corpusFiles.RegisterFile(fd); err != nil {
				panic(err)
			}
		}
		dynTypes = dynamicpb.NewTypes(corpusFiles)
		corpusFiles.RangeFiles(func(fd protoreflect.FileDescriptor) bool {
			var walk func(xs protoreflect.ExtensionDescriptors, ms protoreflect.MessageDescriptors)
			walk = func(xs protoreflect.ExtensionDescriptors, ms protoreflect.MessageDescriptors) {
				for i := 0; i < xs.Len(); i++ {
					xd := xs.Get(i)
					name := xd.ContainingMessage().FullName()
					extsByMessage[name] = append(extsByMessage[name], dynamicpb.NewExtensionType(xd))
				}
				for i := 0; i < ms.Len(); i++ {
					walk(ms.Get(i).Extensions(), ms.Get(i).Messages())
				}
			}
			walk(fd.Extensions(), fd.Messages())
			return true
		})
		for _, fi := range manifest.Files {
			if !fi.PlainBuildOK {
				continue
			}
			for _, full := range fi.Messages {
				d, err := corpusFiles.FindDescriptorByName(protoreflect.FullName(full))
				if err != nil {
					panic(err)
				}
				mt := &MsgType{Info: fi, Full: full, Desc: d.(protoreflect.MessageDescriptor)}
				mt.goT = lookupGoType(fi.Runtime, full)
				if mt.goT == nil {
					panic("harness: generated Go type for " + full + " is not registered with its runtime")
				}
				allTypes = append(allTypes, mt)
				typeByKey[mt.Key()] = mt
			}
		}
		sort.Slice(allTypes, func(i, j int) bool { return allTypes[i].Key() < allTypes[j].Key() })
	})
}

// resolver finds well-known dependencies in the global registry and corpus files in the local one.
type resolver struct{ local *protoregistry.Files }

func (r resolver) FindFileByPath(p string) (protoreflect.FileDescriptor, error) {
	if fd, err := r.local.FindFileByPath(p); err == nil {
		return fd, nil
	}
	return protoregistry.GlobalFiles.FindFileByPath(p)
}
func (r resolver) FindDescriptorByName(n protoreflect.FullName) (protoreflect.Descriptor, error) {
	if d, err := r.local.FindDescriptorByName(n); err == nil {
		return d, nil
	}
	return protoregistry.GlobalFiles.FindDescriptorByName(n)
}

func lookupGoType(runtime, full string) reflect.Type {
	switch runtime {
	case "gv2", "gv1gen":
		mt, err := protoregistry.GlobalTypes.FindMessageByName(protoreflect.FullName(full))
		if err != nil {
			return nil
		}
		return reflect.TypeOf(mt.New().Interface())
	case "gogo":
		return gogo.MessageType(full)
	case "legacy":
		return golang.MessageType(full) //nolint:staticcheck
	}
	return nil
}

// New allocates a fresh concrete message.
func (mt *MsgType) New() any { return reflect.New(mt.goT.Elem()).Interface() }

// reflectOf returns the protoreflect view of a concrete message of any runtime WITHOUT touching the
// code under test: generated google messages implement ProtoReflect themselves; gogo / legacy structs
// are wrapped by protobuf-go's legacy support (struct tags + Descriptor()).  Only reflection is used
// through the wrapper, never its Marshal.
func reflectOf(m any) protoreflect.Message {
	if pm, ok := m.(proto.Message); ok {
		return pm.ProtoReflect()
	}
	return protoimpl.X.ProtoMessageV2Of(m).ProtoReflect()
}

// requireUsable makes a check inconclusive (never green) when most of the generated code could not be used:
// that situation is C16's verdict, the other properties cannot be decided then.
func requireUsable(t interface {
	Fatalf(string, ...any)
}, types []*MsgType, min int) {
	if len(types) < min {
		fmt.Println("INFRA-NO-USABLE-TYPES")
		t.Fatalf("only %d usable generated types (at least %d expected): the generated code does not build, see C16", len(types), min)
	}
}

// usable types (fast-marshal code generated, compiled and linked)
func fmTypes(filter func(*MsgType) bool) []*MsgType {
	loadCorpus()
	var out []*MsgType
	for _, mt := range allTypes {
		if mt.Info.Usable && !mt.Info.Plain && (filter == nil || filter(mt)) {
			out = append(out, mt)
		}
	}
	return out
}

// the four methods the generated code adds
type fastMsg interface {
	csproto.Sizer
	csproto.Marshaler
	csproto.MarshalerTo
	csproto.Unmarshaler
}
