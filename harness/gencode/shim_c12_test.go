package gencode

import (
	"encoding/json"
	"fmt"
	"os"
	"reflect"
	"sort"
	"strings"
	"testing"

	"github.com/CrowdStrike/csproto"
	gogo "github.com/gogo/protobuf/proto"
	golang "github.com/golang/protobuf/proto"
	"google.golang.org/protobuf/proto"
	"google.golang.org/protobuf/reflect/protoreflect"
	"google.golang.org/protobuf/reflect/protoregistry"
	"google.golang.org/protobuf/types/dynamicpb"
	"google.golang.org/protobuf/types/known/durationpb"
	"pgregory.net/rapid"

	"verif/harness/internal/ev"
	"verif/harness/internal/refwire"
)

type durationpbAlias = durationpb.Duration

// XOp is one step of an extension program on one message (and its twin driven through the owning runtime).
type XOp struct {
	Kind  string `json:"kind"` // set | get | has | clear | clearall | range | marshal | number | set-foreign | has-foreign | get-foreign
	Ext   int    `json:"ext"`  // index into the extensions of the message (modulo)
	Value []byte `json:"value,omitempty"`
}

// XCase: a message type with extensions, and the program.
type XCase struct {
	Type string `json:"type"`
	Base []byte `json:"base,omitempty"` // reference encoding of the regular (non-extension) fields the message starts with
	// an undeclared field inside the extension range (number, varint value) the message is DECODED with by its
	// owning runtime at the start: gogo / golang keep such a field with the extensions, Google v2 as unknown
	Undeclared int32 `json:"undeclared,omitempty"`
	Prog []XOp  `json:"prog"`
}

// extHandle: one extension of a message in the three forms needed.
type extHandle struct {
	num  int32
	dfd  protoreflect.FieldDescriptor // dynamic (corpus) descriptor
	desc any                          // what csproto / the owning runtime take: protoreflect.ExtensionType | *gogo.ExtensionDesc | *golang.ExtensionDesc
}

func extHandles(mt *MsgType) []extHandle {
	var out []extHandle
	m := mt.New()
	for _, xt := range extensionsOf(mt.Desc) {
		num := int32(xt.TypeDescriptor().Number())
		h := extHandle{num: num, dfd: xt.TypeDescriptor()}
		switch mt.Info.Runtime {
		case "gv2", "gv1gen":
			cxt, err := protoregistry.GlobalTypes.FindExtensionByNumber(mt.Desc.FullName(), protoreflect.FieldNumber(num))
			if err != nil {
				continue
			}
			h.desc = cxt
		case "gogo":
			d := gogo.RegisteredExtensions(m.(gogo.Message))[num]
			if d == nil {
				continue
			}
			h.desc = d
		case "legacy":
			d := golang.RegisteredExtensions(m.(golang.Message))[num] //nolint:staticcheck
			if d == nil {
				continue
			}
			h.desc = d
		}
		out = append(out, h)
	}
	sort.Slice(out, func(i, j int) bool { return out[i].num < out[j].num })
	return out
}

// goValue builds the Go value the runtime's SetExtension expects for h from a dynamic value.
func goValue(mt *MsgType, h extHandle, v protoreflect.Value) any {
	// note: *protoimpl.ExtensionInfo is both golang's ExtensionDesc and a protoreflect.ExtensionType; what the
	// owning API expects depends on the runtime the MESSAGE belongs to (V1 APIs want *T for scalars)
	if mt.Info.Runtime == "gv2" || mt.Info.Runtime == "gv1gen" {
		d := h.desc.(protoreflect.ExtensionType)
		if h.dfd.Message() != nil {
			nv := d.New()
			copyFromDyn(v.Message(), nv.Message(), nv.Message().Interface())
			return d.InterfaceOf(nv)
		}
		return d.InterfaceOf(scalarFromDyn(v, d.TypeDescriptor()))
	}
	{
		var et reflect.Type
		if gd, ok := h.desc.(*gogo.ExtensionDesc); ok {
			et = reflect.TypeOf(gd.ExtensionType)
		} else {
			et = reflect.TypeOf(h.desc.(*golang.ExtensionDesc).ExtensionType)
		}
		switch {
		case h.dfd.Message() != nil:
			val := reflect.New(et.Elem())
			copyFromDyn(v.Message(), reflectOf(val.Interface()), val.Interface())
			return val.Interface()
		case h.dfd.Kind() == protoreflect.BytesKind:
			return append([]byte{}, v.Bytes()...)
		default:
			val := reflect.New(et.Elem())
			setReflectScalar(val.Elem(), h.dfd, v)
			return val.Interface()
		}
	}
}

// normalise turns whatever GetExtension returned into a comparable string.
func normaliseExt(v any) string {
	if v == nil {
		return "<nil>"
	}
	rv := reflect.ValueOf(v)
	if rv.Kind() == reflect.Ptr && rv.IsNil() {
		return "<nil>" // (a typed nil message is not the same answer as an empty message)
	}
	switch x := v.(type) {
	case proto.Message:
		b, _ := proto.MarshalOptions{Deterministic: true}.Marshal(x)
		return fmt.Sprintf("msg:%x", b)
	case []byte:
		return fmt.Sprintf("bytes:%x", x)
	}
	if rv.Kind() == reflect.Ptr {
		if rv.IsNil() {
			return "<nil>"
		}
		if rv.Elem().Kind() == reflect.Struct {
			return fmt.Sprintf("msg:%v", v)
		}
		return fmt.Sprintf("%v", rv.Elem().Interface())
	}
	return fmt.Sprintf("%v", v)
}

type extRuntime struct {
	has      func(m any, d any) bool
	get      func(m any, d any) (any, error)
	set      func(m any, d any, v any) error
	clear    func(m any, d any)
	clearAll func(m any)
	list     func(m any) map[int32]bool // the extension numbers the runtime's own enumeration reports
}

var extRuntimes = map[string]*extRuntime{
	"gv2": {
		has: func(m, d any) bool { return proto.HasExtension(m.(proto.Message), d.(protoreflect.ExtensionType)) },
		get: func(m, d any) (any, error) {
			return proto.GetExtension(m.(proto.Message), d.(protoreflect.ExtensionType)), nil
		},
		set: func(m, d, v any) error {
			proto.SetExtension(m.(proto.Message), d.(protoreflect.ExtensionType), v)
			return nil
		},
		clear: func(m, d any) { proto.ClearExtension(m.(proto.Message), d.(protoreflect.ExtensionType)) },
		clearAll: func(m any) {
			pm := m.(proto.Message)
			proto.RangeExtensions(pm, func(xt protoreflect.ExtensionType, _ any) bool { proto.ClearExtension(pm, xt); return true })
		},
		list: func(m any) map[int32]bool {
			out := map[int32]bool{}
			proto.RangeExtensions(m.(proto.Message), func(xt protoreflect.ExtensionType, _ any) bool {
				out[int32(xt.TypeDescriptor().Number())] = true
				return true
			})
			return out
		}},
	"gogo": {
		has:      func(m, d any) bool { return gogo.HasExtension(m.(gogo.Message), d.(*gogo.ExtensionDesc)) },
		get:      func(m, d any) (any, error) { return gogo.GetExtension(m.(gogo.Message), d.(*gogo.ExtensionDesc)) },
		set:      func(m, d, v any) error { return gogo.SetExtension(m.(gogo.Message), d.(*gogo.ExtensionDesc), v) },
		clear:    func(m, d any) { gogo.ClearExtension(m.(gogo.Message), d.(*gogo.ExtensionDesc)) },
		clearAll: func(m any) { gogo.ClearAllExtensions(m.(gogo.Message)) },
		list: func(m any) map[int32]bool {
			out := map[int32]bool{}
			ds, _ := gogo.ExtensionDescs(m.(gogo.Message))
			for _, d := range ds {
				out[d.Field] = true
			}
			return out
		}},
	"legacy": {
		has:      func(m, d any) bool { return golang.HasExtension(m.(golang.Message), d.(*golang.ExtensionDesc)) },
		get:      func(m, d any) (any, error) { return golang.GetExtension(m.(golang.Message), d.(*golang.ExtensionDesc)) },
		set:      func(m, d, v any) error { return golang.SetExtension(m.(golang.Message), d.(*golang.ExtensionDesc), v) },
		clear:    func(m, d any) { golang.ClearExtension(m.(golang.Message), d.(*golang.ExtensionDesc)) },
		clearAll: func(m any) { golang.ClearAllExtensions(m.(golang.Message)) },
		list: func(m any) map[int32]bool {
			out := map[int32]bool{}
			ds, _ := golang.ExtensionDescs(m.(golang.Message)) //nolint:staticcheck
			for _, d := range ds {
				out[d.Field] = true
			}
			return out
		}},
}

func init() { extRuntimes["gv1gen"] = extRuntimes["gv2"] }

// foreignDesc returns an extension descriptor of ANOTHER runtime (same schema position).
func foreignDesc(mt *MsgType, idx int) any {
	// a gogo descriptor for Google messages and a Google descriptor for gogo messages (Google V1 and V2 share
	// one descriptor Go type, so that pairing is not a "different runtime" in any observable sense)
	other := map[string]string{"gv2": "gogoplain", "gv1gen": "gogoplain", "gogo": "gv2plain", "legacy": "gogoplain"}[mt.Info.Runtime]
	key := other + "/" + mt.Info.File + "/" + mt.Short()
	omt := typeByKey[key]
	if omt == nil {
		return nil
	}
	hs := extHandles(omt)
	if len(hs) == 0 {
		return nil
	}
	return hs[idx%len(hs)].desc
}

func wireNumbersOf(rtName string, m any) map[int]int {
	b, err := runtimes[rtName].marshal(m)
	if err != nil {
		return nil
	}
	nums, _ := wireNumbers(b)
	return nums
}

func oracleC12(c *XCase) (fail *ev.Failure, st struct {
	steps, setThenClear int
	regular             bool
	undeclared          bool
}) {
	loadCorpus()
	mt := typeByKey[c.Type]
	if mt == nil {
		return ev.Failf("C12/replay-type-missing", "type %s is not part of the generated corpus any more", c.Type), st
	}
	sig := func(kind string) string { return "C12/" + kind + "/" + mt.Info.Runtime + "/" + mt.Info.File }
	hs := extHandles(mt)
	if len(hs) == 0 {
		panic("harness: " + c.Type + " has no registered extensions")
	}
	xr := extRuntimes[mt.Info.Runtime]
	live, twin := mt.New(), mt.New()
	if len(c.Base) > 0 {
		FromDynamic(decodeRef(mt.Desc, c.Base), live)
		FromDynamic(decodeRef(mt.Desc, c.Base), twin)
		st.regular = true
	}
	if c.Undeclared > 0 {
		raw := refwire.AppendVarint(refwire.AppendKey(append([]byte{}, c.Base...), int(c.Undeclared), 0), 7)
		live, twin = mt.New(), mt.New()
		if err := runtimes[mt.Info.Runtime].unmarshal(raw, live); err != nil {
			panic("harness: owning runtime rejects " + fmt.Sprintf("%x: %v", raw, err))
		}
		_ = runtimes[mt.Info.Runtime].unmarshal(raw, twin)
		st.undeclared = true
	}
	model := map[int32]string{}
	stage := ""
	defer func() {
		if r := recover(); r != nil {
			fail = ev.Failf(sig("panic-"+stage), "%s panicked: %v", stage, r)
		}
	}()
	everSet := false
	for i, op := range c.Prog {
		st.steps++
		h := hs[op.Ext%len(hs)]
		stage = op.Kind
		switch op.Kind {
		case "set":
			holder := dynamicpb.NewMessage(mt.Desc)
			if err := refUnmarshal().Unmarshal(op.Value, holder); err != nil || !holder.Has(h.dfd) {
				continue
			}
			v := holder.Get(h.dfd)
			if err := csproto.SetExtension(live, h.desc, goValue(mt, h, v)); err != nil {
				return ev.Failf(sig("set-error"), "step %d: SetExtension(%d): %v", i, h.num, err), st
			}
			if err := xr.set(twin, h.desc, goValue(mt, h, v)); err != nil {
				panic("harness: owning runtime rejects the value: " + err.Error())
			}
			g, _ := xr.get(twin, h.desc)
			model[h.num] = normaliseExt(g)
			everSet = true
		case "clear":
			if everSet {
				st.setThenClear++
			}
			csproto.ClearExtension(live, h.desc)
			xr.clear(twin, h.desc)
			delete(model, h.num)
		case "clearall":
			if everSet {
				st.setThenClear++
			}
			csproto.ClearAllExtensions(live)
			xr.clearAll(twin)
			model = map[int32]string{}
		case "number":
			n, err := csproto.ExtensionFieldNumber(h.desc)
			if err != nil || int32(n) != h.num {
				return ev.Failf(sig("wrong-field-number"), "ExtensionFieldNumber = %d, %v; declared %d", n, err, h.num), st
			}
		case "range":
			if everSet {
				st.setThenClear++
			}
			seen := map[int32]bool{}
			err := csproto.RangeExtensions(live, func(_ any, _ string, field int32) error { seen[field] = true; return nil })
			if err != nil {
				return ev.Failf(sig("range-error"), "RangeExtensions: %v", err), st
			}
			for n := range model {
				if !seen[n] {
					return ev.Failf(sig("range-misses-set-extension"), "step %d: extension %d is set but RangeExtensions visited %v", i, n, keys(seen)), st
				}
			}
			theirs := xr.list(twin) // what the owning runtime's own enumeration reports on the twin
			for n := range seen {
				if _, ok := model[n]; !ok && !theirs[n] {
					return ev.Failf(sig("range-visits-unset-extension"), "step %d: RangeExtensions visited %d which is not set (set: %v)", i, n, model), st
				}
			}
			for n := range theirs {
				if !seen[n] {
					return ev.Failf(sig("range-misses-extension-the-runtime-reports"), "step %d: the owning runtime's enumeration reports extension %d, RangeExtensions visited %v", i, n, keys(seen)), st
				}
			}
		case "has-undeclared", "clear-undeclared":
			// a hand-built, UNREGISTERED descriptor for the undeclared number the message was decoded with (gogo /
			// golang accept such descriptors: late-bound extensions); csproto must do what the runtime does on the twin
			ud := undeclaredDesc(mt, c.Undeclared)
			if ud == nil {
				continue
			}
			if op.Kind == "has-undeclared" {
				if got, want := csproto.HasExtension(live, ud), xr.has(twin, ud); got != want {
					return ev.Failf(sig("has-differs-for-late-bound-descriptor"), "step %d: HasExtension(undeclared %d) = %v, the owning runtime says %v", i, c.Undeclared, got, want), st
				}
			} else {
				csproto.ClearExtension(live, ud)
				xr.clear(twin, ud)
				if got, want := csproto.HasExtension(live, ud), xr.has(twin, ud); got != want {
					return ev.Failf(sig("clear-differs-for-late-bound-descriptor"), "step %d: after ClearExtension(undeclared %d) HasExtension = %v, the owning runtime says %v", i, c.Undeclared, got, want), st
				}
				if a, b := wireNumbersOf(mt.Info.Runtime, live), wireNumbersOf(mt.Info.Runtime, twin); a[int(c.Undeclared)] != b[int(c.Undeclared)] {
					return ev.Failf(sig("clear-differs-for-late-bound-descriptor"), "step %d: after ClearExtension(undeclared %d) the field occurs %d time(s) in the marshaled bytes, %d time(s) for the twin cleared by the owning runtime", i, c.Undeclared, a[int(c.Undeclared)], b[int(c.Undeclared)]), st
				}
			}
		case "set-foreign", "has-foreign", "get-foreign":
			fd := foreignDesc(mt, op.Ext)
			if fd == nil {
				continue
			}
			switch op.Kind {
			case "has-foreign":
				if csproto.HasExtension(live, fd) {
					return ev.Failf(sig("foreign-descriptor-accepted"), "HasExtension with a %T descriptor on a %s message returned true", fd, mt.Info.Runtime), st
				}
			case "get-foreign":
				if _, err := csproto.GetExtension(live, fd); err == nil {
					return ev.Failf(sig("foreign-descriptor-accepted"), "GetExtension with a %T descriptor on a %s message returned no error", fd, mt.Info.Runtime), st
				}
			case "set-foreign":
				if err := csproto.SetExtension(live, fd, int32(1)); err == nil {
					return ev.Failf(sig("foreign-descriptor-accepted"), "SetExtension with a %T descriptor on a %s message returned no error", fd, mt.Info.Runtime), st
				}
			}
		}
		// invariants after every step: Has/Get agree with the model and the twin; cleared numbers are off the wire
		stage = "invariant"
		for _, hh := range hs {
			has := csproto.HasExtension(live, hh.desc)
			_, want := model[hh.num]
			if has != want || has != xr.has(twin, hh.desc) {
				return ev.Failf(sig("has-differs"), "step %d (%s): HasExtension(%d) = %v, model %v, owning runtime on the twin %v", i, op.Kind, hh.num, has, want, xr.has(twin, hh.desc)), st
			}
			gv, gerr := csproto.GetExtension(live, hh.desc)
			tv, terr := xr.get(twin, hh.desc)
			if (gerr == nil) != (terr == nil) || (gerr == nil && normaliseExt(gv) != normaliseExt(tv)) {
				return ev.Failf(sig("get-differs"), "step %d (%s): GetExtension(%d) = %s, %v; the owning runtime returns %s, %v", i, op.Kind, hh.num, normaliseExt(gv), gerr, normaliseExt(tv), terr), st
			}
			if want && normaliseExt(gv) != model[hh.num] {
				return ev.Failf(sig("get-differs"), "step %d: GetExtension(%d) = %s, value set was %s", i, hh.num, normaliseExt(gv), model[hh.num]), st
			}
		}
		if op.Kind == "clear" || op.Kind == "clearall" || op.Kind == "marshal" || op.Kind == "set-foreign" {
			stage = "marshal"
			nums := wireNumbersOf(mt.Info.Runtime, live)
			for _, hh := range hs {
				if _, set := model[hh.num]; !set && nums[int(hh.num)] > 0 {
					return ev.Failf(sig("cleared-extension-still-on-the-wire"), "step %d (%s): extension %d is not set but occurs %d time(s) in the marshaled bytes", i, op.Kind, hh.num, nums[int(hh.num)]), st
				}
			}
			if !runtimes[mt.Info.Runtime].equal(live, twin) {
				return ev.Failf(sig("message-differs-from-twin"), "step %d (%s): the message differs from its twin driven through the owning runtime", i, op.Kind), st
			}
			// types with generated fast-marshal code: "marshaled bytes" are what csproto.Marshal (= the generated
			// Marshal) returns - an extension that is not set must not be there either
			if !mt.Info.Plain {
				stage = "csproto.Marshal"
				if b, err := csproto.Marshal(live); err == nil {
					cn, _ := wireNumbers(b)
					for _, hh := range hs {
						if _, set := model[hh.num]; !set && cn[int(hh.num)] > 0 {
							return ev.Failf(sig("unset-extension-in-generated-marshal-output"), "step %d (%s): extension %d is not set (HasExtension = %v) but occurs %d time(s) in the bytes csproto.Marshal returns: %.80x", i, op.Kind, hh.num, csproto.HasExtension(live, hh.desc), cn[int(hh.num)], b), st
						}
					}
				}
			}
		}
	}
	_ = refwire.WTLen
	return nil, st
}

func keys(m map[int32]bool) []int32 {
	var out []int32
	for k := range m {
		out = append(out, k)
	}
	sort.Slice(out, func(i, j int) bool { return out[i] < out[j] })
	return out
}

func extTypes() []*MsgType {
	loadCorpus()
	var out []*MsgType
	for _, mt := range allTypes {
		// the accessors are csproto's own code: plain types of the three runtimes (+ Google V2 fast-marshal types);
		// what generated code does with extensions is C04-C08's subject
		switch mt.Info.Variant {
		case "gv2plain", "gogoplain", "legacyplain", "gv2s":
		default:
			continue
		}
		if (mt.Info.Plain || mt.Info.Usable) && strings.HasPrefix(mt.Info.File, "ext") && len(extensionsOf(mt.Desc)) > 0 && len(extHandles(mt)) > 0 {
			out = append(out, mt)
		}
	}
	return out
}

var c12Kinds = []string{"set", "set", "set", "get", "has", "clear", "clear", "clearall", "range", "range", "marshal", "number", "set-foreign", "has-foreign", "get-foreign", "has-undeclared", "clear-undeclared"}

const ruleC12 = "case = a proto2 message type with extensions (one file per extension kind: 15 scalars, enum, message; plus file-scope / nested-scope / multiple extensions / extensions with defaults), 2 in 3 starting with its regular fields populated, 1 in 4 decoded by its runtime from bytes that carry an undeclared field inside the extension range, of gogo / Google v1 (legacy) / Google v2, plain and fast-marshal, + a program of <= 30 ops over {Set, Get, Has, Clear, ClearAll, Range, Marshal, ExtensionFieldNumber, and Set/Has/Get with the descriptor of ANOTHER runtime, Has/Clear with a hand-built unregistered descriptor for an undeclared number the message was decoded with (gogo / golang)}; model map[number]value AND a twin message driven through the owning runtime's own extension API with the same ops: after each step Has/Get agree with both, after Clear/ClearAll/Marshal the extension's number is on the wire iff it is set (in the runtime's Marshal output and, for types with generated code, in csproto.Marshal's), Range visits exactly the set numbers and exactly what the owning runtime's own enumeration reports on the twin, a foreign descriptor yields false / an error and leaves the message equal to its twin; non-trivial = a program with >= 1 Set followed later by Clear / ClearAll / Range; distinct by program; descriptor.proto options: a custom string option on each of the nine XxxOptions messages of Google's descriptorpb and of gogo's descriptor package, Set / Has / Get / Range / Clear / ClearAll against a twin driven through the owning runtime; first-use clause: 10 (thorough 40) further fresh processes in which each type's FIRST csproto call is one of 10 entry points (Has/Get/Clear/ClearAll/Range/SetExtension, MsgType, Equal, Marshal on a typed nil pointer; HasExtension on a message), rotated so that every (type, first call) pair occurs, followed by a fixed Set/Has/Get/Range/Clear/ClearAll program under the same oracle; 8 (thorough 80) further fresh processes in which the first use of every type is made by 8 goroutines at once, each running that program on a message of its own"

func TestC12(t *testing.T) {
	if v := os.Getenv(envC12Child); v != "" {
		c12FirstUseChild(t, v)
		return
	}
	rec := ev.New("C12", ruleC12)
	defer rec.Write()
	useRecorder(rec)
	defer func() { t.Log(rec.Summary()); fmt.Print(rec.SurveyReport()) }()
	mine := shardTypes(extTypes())
	rec.Extra("types_with_extensions", len(extTypes()))
	if len(mine) == 0 {
		return
	}
	// (deferred: the fresh-process rounds also run when the in-process search below has already failed - a failure
	// that depends on what this process did earlier does not reproduce from its case alone, a fresh-process round does)
	defer c12FirstUseRounds(t, rec)
	if shard, _ := ev.Shard(); shard == 0 {
		rec.Eval(18)
		rec.NonTrivialEnum(18)
		rec.Class("descriptor-options-sweep")
		rec.Check(t, "optsweep", map[string]any{}, c12OptionsSweep())
	}
	ev.Rapid(t, ev.N(8000, 150000), 12, func(rt *rapid.T) {
		mt := rapid.SampledFrom(mine).Draw(rt, "type")
		c := &XCase{Type: mt.Key()}
		if rapid.IntRange(0, 3).Draw(rt, "undeclared") == 0 {
			// a number inside the extension range of the message that no extension declares
			if n := undeclaredExtNumber(mt); n > 0 {
				c.Undeclared = n
			}
		}
		if rapid.IntRange(0, 2).Draw(rt, "regular") != 0 {
			// regular fields populated next to the extensions
			c.Base, _ = refMarshal.Marshal(genDyn(rt, mt.Desc, 1, genOpts{runtime: mt.Info.Runtime, requiredProb: 10, noExt: true, jsonSafe: true}))
		}
		for i := rapid.IntRange(1, 30).Draw(rt, "nops"); i > 0; i-- {
			op := XOp{Kind: rapid.SampledFrom(c12Kinds).Draw(rt, "kind"), Ext: rapid.IntRange(0, 5).Draw(rt, "ext")}
			if op.Kind == "set" {
				// a message value that has (only) extensions set: the op picks the one it needs
				holder := dynamicpb.NewMessage(mt.Desc)
				for _, xt := range extensionsOf(mt.Desc) {
					fd := xt.TypeDescriptor()
					if fd.Message() != nil {
						holder.Set(fd, protoreflect.ValueOfMessage(genChild(rt, fd.Message(), 1, genOpts{requiredProb: 10})))
					} else {
						holder.Set(fd, jsonSafeValue(fd, genScalar(rt, fd))) // finite floats: gogo's Equal is not NaN-aware
					}
				}
				op.Value, _ = refMarshal.Marshal(holder)
			}
			c.Prog = append(c.Prog, op)
		}
		f, st := oracleC12(c)
		rec.Eval(int64(st.steps))
		rec.Class("runtime/" + mt.Info.Runtime)
		rec.Class("file/" + mt.Info.File)
		if st.regular {
			rec.Class("regular-fields-populated")
		}
		if st.undeclared {
			rec.Class("decoded-with-an-undeclared-field-in-the-extension-range")
		}
		if st.setThenClear > 0 {
			cj, _ := json.Marshal(c)
			rec.NonTrivial(ev.FP(cj))
			rec.Sample(mt.Info.Runtime+"/"+mt.Info.File, map[string]any{"type": c.Type, "base_hex": fmt.Sprintf("%x", c.Base), "prog": progKinds(c.Prog)})
		}
		rec.Check(rt, "xcase", c, f)
	})
}

// undeclaredDesc builds an unregistered descriptor (int64, varint) for number n of mt - gogo and legacy runtimes only.
func undeclaredDesc(mt *MsgType, n int32) any {
	if n <= 0 {
		return nil
	}
	tag := fmt.Sprintf("varint,%d,opt,name=late_bound", n)
	switch mt.Info.Runtime {
	case "gogo":
		return &gogo.ExtensionDesc{ExtendedType: mt.New().(gogo.Message), ExtensionType: (*int64)(nil), Field: n, Name: "vf.late_bound", Tag: tag}
	case "legacy":
		return &golang.ExtensionDesc{ExtendedType: mt.New().(golang.Message), ExtensionType: (*int64)(nil), Field: n, Name: "vf.late_bound", Tag: tag}
	}
	return nil
}

// undeclaredExtNumber: a number inside an extension range of mt that no extension of the corpus declares.
func undeclaredExtNumber(mt *MsgType) int32 {
	used := map[int32]bool{}
	for _, xt := range extensionsOf(mt.Desc) {
		used[int32(xt.TypeDescriptor().Number())] = true
	}
	rs := mt.Desc.ExtensionRanges()
	for i := 0; i < rs.Len(); i++ {
		for n := rs.Get(i)[1] - 1; n >= rs.Get(i)[0]; n-- {
			if !used[int32(n)] && (n < 19000 || n > 19999) {
				return int32(n)
			}
		}
	}
	return 0
}

func progKinds(p []XOp) []string {
	out := make([]string, len(p))
	for i, o := range p {
		out[i] = fmt.Sprintf("%s(%d)", o.Kind, o.Ext)
	}
	return out
}
