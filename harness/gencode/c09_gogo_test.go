package gencode

import (
	"bytes"
	"encoding/json"
	"fmt"
	"strings"

	"github.com/CrowdStrike/csproto"
	gogo "github.com/gogo/protobuf/proto"
	gogotest "github.com/gogo/protobuf/test"
	"pgregory.net/rapid"

	"verif/harness/internal/ev"
)

// C09 through csproto on PLAIN gogo messages whose generated code carries gogo's sizer plug-in but not its marshaler
// plug-in (a Size() method next to the table-driven XXX_Marshal, which takes nested length prefixes from the size
// cache): the types of gogo's own test package.  Histories of in-place mutations, csproto.Size / Marshal, the
// runtime's Size / Marshal and Clone; every csproto.Marshal must equal gogo's Marshal of a fresh deep copy.

type GogoOp struct {
	Kind string `json:"kind"` // child14 | child15 | top14 | dropchild | newchild | cssize | csmarshal | rtsize | rtmarshal | clone
	N    int    `json:"n,omitempty"`
}

type GogoCase struct {
	Prog []GogoOp `json:"prog"`
}

func oracleC09Gogo(c *GogoCase) (fail *ev.Failure) {
	stage := ""
	defer func() {
		if r := recover(); r != nil {
			fail = ev.Failf("C09/gogo-sizer-only/panic-"+stage, "%s panicked: %v", stage, r)
		}
	}()
	m := &gogotest.NinOptStruct{}
	str := func(n int) *string { s := strings.Repeat("x", n); return &s }
	history := ""
	for i, op := range c.Prog {
		stage = op.Kind
		history += op.Kind + " "
		switch op.Kind {
		case "child14":
			if m.Field4 == nil {
				m.Field4 = &gogotest.NinOptNative{}
			}
			m.Field4.Field14 = str(op.N)
		case "child15":
			if m.Field4 == nil {
				m.Field4 = &gogotest.NinOptNative{}
			}
			m.Field4.Field15 = make([]byte, op.N)
		case "top14":
			m.Field14 = str(op.N)
		case "dropchild":
			m.Field4 = nil
		case "newchild":
			m.Field4 = &gogotest.NinOptNative{Field14: str(op.N)}
		case "rtsize":
			_ = gogo.Size(m)
		case "rtmarshal":
			_, _ = gogo.Marshal(m)
		case "clone":
			m = csproto.Clone(m).(*gogotest.NinOptStruct)
		case "cssize", "csmarshal":
			fresh := gogo.Clone(m)
			want, werr := gogo.Marshal(fresh)
			if werr != nil {
				panic("harness: gogo cannot marshal the fresh copy: " + werr.Error())
			}
			if op.Kind == "cssize" {
				if n := csproto.Size(m); n != len(want) {
					return ev.Failf("C09/gogo-sizer-only/size", "step %d of [%s]: csproto.Size = %d, gogo marshals a fresh copy of the same contents to %d bytes", i, history, n, len(want))
				}
				continue
			}
			got, err := csproto.Marshal(m)
			if err != nil || !bytes.Equal(got, want) {
				return ev.Failf("C09/gogo-sizer-only/bytes-differ-from-fresh-copy", "step %d of [%s]: csproto.Marshal returned %v %.80x, gogo marshals a fresh deep copy of the same contents to %.80x", i, history, err, got, want)
			}
		}
	}
	return nil
}

var gogoOpKinds = []string{"child14", "child14", "child15", "top14", "dropchild", "newchild", "cssize", "csmarshal", "csmarshal", "csmarshal", "rtsize", "rtmarshal", "clone"}

func c09GogoHistories(tb ev.TB, rec *ev.Recorder, n int) {
	gen := rapid.Custom(func(rt *rapid.T) *GogoCase {
		c := &GogoCase{}
		for i := rapid.IntRange(1, 14).Draw(rt, "nops"); i > 0; i-- {
			c.Prog = append(c.Prog, GogoOp{Kind: rapid.SampledFrom(gogoOpKinds).Draw(rt, "kind"), N: rapid.SampledFrom([]int{0, 1, 5, 40, 126, 127, 128, 300}).Draw(rt, "n")})
		}
		return c
	})
	for i := 0; i < n; i++ {
		c := gen.Example(int(ev.DerivedSeed(909))%1000003 + i)
		rec.Eval(int64(len(c.Prog)))
		rec.Class("plain-gogo-sizer-only-history")
		cj, _ := json.Marshal(c)
		rec.NonTrivial(ev.FP(cj))
		if i < 2 {
			rec.Sample("gogo-sizer-only", c)
		}
		rec.Check(tb, "gogocase", c, oracleC09Gogo(c))
	}
	_ = fmt.Sprint
}
