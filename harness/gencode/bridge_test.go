package gencode

import (
	"fmt"
	"reflect"

	gogo "github.com/gogo/protobuf/proto"
	"google.golang.org/protobuf/reflect/protoreflect"
	"google.golang.org/protobuf/reflect/protoregistry"
	"google.golang.org/protobuf/runtime/protoimpl"
	"google.golang.org/protobuf/types/dynamicpb"
)

// ToDynamic copies a concrete message of any runtime, field by field and by number, into a dynamic
// message built from the corpus' own descriptor.  It reads through reflection only.
func ToDynamic(src any, dd protoreflect.MessageDescriptor) *dynamicpb.Message {
	return copyToDyn(reflectOf(src), dd)
}

// concreteOf returns the generated struct pointer behind a reflection view (the struct itself for gogo / legacy
// types, which protobuf-go only sees through its legacy wrapper).
func concreteOf(pm protoreflect.Message) any {
	return protoimpl.X.ProtoMessageV1Of(pm.Interface())
}

func isGogoRegistered(m gogo.Message) bool { return gogo.MessageName(m) != "" }

func copyToDyn(sm protoreflect.Message, dd protoreflect.MessageDescriptor) *dynamicpb.Message {
	dst := dynamicpb.NewMessage(dd)
	if !sm.IsValid() {
		return dst
	}
	sm.Range(func(fd protoreflect.FieldDescriptor, v protoreflect.Value) bool {
		var dfd protoreflect.FieldDescriptor
		if fd.IsExtension() {
			xt, err := dynTypes.FindExtensionByNumber(dd.FullName(), fd.Number())
			if err != nil {
				panic(fmt.Sprintf("harness: extension %d of %s not in the corpus", fd.Number(), dd.FullName()))
			}
			dfd = xt.TypeDescriptor()
		} else {
			dfd = dd.Fields().ByNumber(fd.Number())
		}
		if dfd == nil {
			panic(fmt.Sprintf("harness: field %d of %s not in the corpus descriptor", fd.Number(), dd.FullName()))
		}
		switch {
		case fd.IsList():
			l := dst.NewField(dfd).List()
			sl := v.List()
			for i := 0; i < sl.Len(); i++ {
				l.Append(singleToDyn(sl.Get(i), dfd))
			}
			dst.Set(dfd, protoreflect.ValueOfList(l))
		case fd.IsMap():
			mp := dst.NewField(dfd).Map()
			v.Map().Range(func(k protoreflect.MapKey, mv protoreflect.Value) bool {
				mp.Set(k, singleToDyn(mv, dfd.MapValue()))
				return true
			})
			dst.Set(dfd, protoreflect.ValueOfMap(mp))
		default:
			dst.Set(dfd, singleToDyn(v, dfd))
		}
		return true
	})
	if u := sm.GetUnknown(); len(u) > 0 {
		dst.SetUnknown(append(protoreflect.RawFields{}, u...))
	}
	// gogo keeps extensions where the legacy wrapper does not look: read them through gogo's own API, at every level
	if gm, ok := concreteOf(sm).(gogo.Message); ok && isGogoRegistered(gm) {
		gogoExtsToDyn(gm, dst)
	}
	return dst
}

func singleToDyn(v protoreflect.Value, dfd protoreflect.FieldDescriptor) protoreflect.Value {
	switch dfd.Kind() {
	case protoreflect.MessageKind, protoreflect.GroupKind:
		return protoreflect.ValueOfMessage(copyToDyn(v.Message(), dfd.Message()))
	case protoreflect.BytesKind:
		return protoreflect.ValueOfBytes(append([]byte{}, v.Bytes()...))
	case protoreflect.EnumKind:
		return protoreflect.ValueOfEnum(v.Enum())
	}
	return v
}

// FromDynamic populates a fresh concrete message from a dynamic one.  Plain field stores through
// reflection, exactly like user code assigning fields: nothing here calls Size/Marshal.
func FromDynamic(dyn protoreflect.Message, dst any) {
	copyFromDyn(dyn, reflectOf(dst), dst)
}

func copyFromDyn(dyn protoreflect.Message, cm protoreflect.Message, concrete any) {
	cd := cm.Descriptor()
	dyn.Range(func(fd protoreflect.FieldDescriptor, v protoreflect.Value) bool {
		var cfd protoreflect.FieldDescriptor
		if fd.IsExtension() {
			if gm, ok := concrete.(gogo.Message); ok && isGogoRegistered(gm) {
				setGogoExt(gm, fd, v)
				return true
			}
			xt, err := protoregistry.GlobalTypes.FindExtensionByNumber(cd.FullName(), fd.Number())
			if err != nil {
				panic(fmt.Sprintf("harness: extension %d of %s is not registered: %v", fd.Number(), cd.FullName(), err))
			}
			cfd = xt.TypeDescriptor()
		} else {
			cfd = cd.Fields().ByNumber(fd.Number())
		}
		if cfd == nil {
			panic(fmt.Sprintf("harness: field %d missing in concrete %s", fd.Number(), cd.FullName()))
		}
		switch {
		case fd.IsList():
			l := cm.Mutable(cfd).List()
			sl := v.List()
			for i := 0; i < sl.Len(); i++ {
				if cfd.Message() != nil {
					e := l.NewElement()
					copyFromDyn(sl.Get(i).Message(), e.Message(), concreteOf(e.Message()))
					l.Append(e)
				} else {
					l.Append(scalarFromDyn(sl.Get(i), cfd))
				}
			}
		case fd.IsMap():
			mp := cm.Mutable(cfd).Map()
			v.Map().Range(func(k protoreflect.MapKey, mv protoreflect.Value) bool {
				if cfd.MapValue().Message() != nil {
					nv := mp.NewValue()
					copyFromDyn(mv.Message(), nv.Message(), concreteOf(nv.Message()))
					mp.Set(k, nv)
				} else {
					mp.Set(k, scalarFromDyn(mv, cfd.MapValue()))
				}
				return true
			})
		case cfd.Message() != nil:
			sub := cm.Mutable(cfd).Message()
			copyFromDyn(v.Message(), sub, concreteOf(sub))
		default:
			cm.Set(cfd, scalarFromDyn(v, cfd))
		}
		return true
	})
	if u := dyn.GetUnknown(); len(u) > 0 {
		cm.SetUnknown(append(protoreflect.RawFields{}, u...))
	}
}

func scalarFromDyn(v protoreflect.Value, cfd protoreflect.FieldDescriptor) protoreflect.Value {
	switch cfd.Kind() {
	case protoreflect.BytesKind:
		return protoreflect.ValueOfBytes(append([]byte{}, v.Bytes()...))
	case protoreflect.EnumKind:
		return protoreflect.ValueOfEnum(v.Enum())
	}
	return v
}

// ---- gogo extensions: invisible to the legacy reflection wrapper, bridged through gogo's own API ----

func gogoExtDesc(m gogo.Message, num int32) *gogo.ExtensionDesc {
	return gogo.RegisteredExtensions(m)[num]
}

func setGogoExt(m gogo.Message, fd protoreflect.FieldDescriptor, v protoreflect.Value) {
	ed := gogoExtDesc(m, int32(fd.Number()))
	if ed == nil {
		panic(fmt.Sprintf("harness: gogo extension %d not registered for %T", fd.Number(), m))
	}
	et := reflect.TypeOf(ed.ExtensionType)
	var val reflect.Value
	switch {
	case fd.Kind() == protoreflect.MessageKind:
		val = reflect.New(et.Elem())
		copyFromDyn(v.Message(), reflectOf(val.Interface()), val.Interface())
	case fd.Kind() == protoreflect.BytesKind:
		val = reflect.ValueOf(append([]byte{}, v.Bytes()...))
	default:
		val = reflect.New(et.Elem())
		setReflectScalar(val.Elem(), fd, v)
	}
	if err := gogo.SetExtension(m, ed, val.Interface()); err != nil {
		panic(fmt.Sprintf("harness: gogo.SetExtension: %v", err))
	}
}

func setReflectScalar(dst reflect.Value, fd protoreflect.FieldDescriptor, v protoreflect.Value) {
	switch fd.Kind() {
	case protoreflect.BoolKind:
		dst.SetBool(v.Bool())
	case protoreflect.EnumKind:
		dst.SetInt(int64(v.Enum()))
	case protoreflect.Int32Kind, protoreflect.Sint32Kind, protoreflect.Sfixed32Kind, protoreflect.Int64Kind, protoreflect.Sint64Kind, protoreflect.Sfixed64Kind:
		dst.SetInt(v.Int())
	case protoreflect.Uint32Kind, protoreflect.Fixed32Kind, protoreflect.Uint64Kind, protoreflect.Fixed64Kind:
		dst.SetUint(v.Uint())
	case protoreflect.FloatKind, protoreflect.DoubleKind:
		dst.SetFloat(v.Float())
	case protoreflect.StringKind:
		dst.SetString(v.String())
	default:
		panic("harness: setReflectScalar " + fd.Kind().String())
	}
}

func gogoExtsToDyn(m gogo.Message, dst *dynamicpb.Message) {
	for num, ed := range gogo.RegisteredExtensions(m) {
		if !gogo.HasExtension(m, ed) {
			continue
		}
		val, err := gogo.GetExtension(m, ed)
		if err != nil {
			panic(fmt.Sprintf("harness: gogo.GetExtension(%d): %v", num, err))
		}
		xt, err := dynTypes.FindExtensionByNumber(dst.Descriptor().FullName(), protoreflect.FieldNumber(num))
		if err != nil {
			panic(err)
		}
		dfd := xt.TypeDescriptor()
		rv := reflect.ValueOf(val)
		var pv protoreflect.Value
		switch dfd.Kind() {
		case protoreflect.MessageKind:
			pv = protoreflect.ValueOfMessage(copyToDyn(reflectOf(val), dfd.Message()))
		case protoreflect.BytesKind:
			pv = protoreflect.ValueOfBytes(append([]byte{}, rv.Bytes()...))
		default:
			e := rv.Elem()
			switch dfd.Kind() {
			case protoreflect.BoolKind:
				pv = protoreflect.ValueOfBool(e.Bool())
			case protoreflect.EnumKind:
				pv = protoreflect.ValueOfEnum(protoreflect.EnumNumber(e.Int()))
			case protoreflect.Int32Kind, protoreflect.Sint32Kind, protoreflect.Sfixed32Kind:
				pv = protoreflect.ValueOfInt32(int32(e.Int()))
			case protoreflect.Int64Kind, protoreflect.Sint64Kind, protoreflect.Sfixed64Kind:
				pv = protoreflect.ValueOfInt64(e.Int())
			case protoreflect.Uint32Kind, protoreflect.Fixed32Kind:
				pv = protoreflect.ValueOfUint32(uint32(e.Uint()))
			case protoreflect.Uint64Kind, protoreflect.Fixed64Kind:
				pv = protoreflect.ValueOfUint64(e.Uint())
			case protoreflect.FloatKind:
				pv = protoreflect.ValueOfFloat32(float32(e.Float()))
			case protoreflect.DoubleKind:
				pv = protoreflect.ValueOfFloat64(e.Float())
			case protoreflect.StringKind:
				pv = protoreflect.ValueOfString(e.String())
			}
		}
		dst.Set(dfd, pv)
	}
}
