package schema

import (
	"google.golang.org/protobuf/proto"
	"google.golang.org/protobuf/types/descriptorpb"
)

// FileSpec is one corpus file plus what the checks need to know about it.
type FileSpec struct {
	Name    string // file / Go package name
	FD      *FDP
	Feature string   // the feature group this file isolates (used in signatures)
	Core    bool     // part of the reduced corpus used for the non-default option combinations
	Imports []string // names of other corpus files of the same variant this file imports (they precede it)
}

// allKinds = 15 scalars + enum + message, as "typ" strings relative to a package that defines Color and Inner.
func kindTypes(pkg string) []struct{ Name, Typ string } {
	var out []struct{ Name, Typ string }
	for _, k := range ScalarKinds {
		out = append(out, struct{ Name, Typ string }{k, k})
	}
	out = append(out, struct{ Name, Typ string }{"enum", "enum:" + FullName(pkg, "Color")})
	out = append(out, struct{ Name, Typ string }{"message", FullName(pkg, "Inner")})
	return out
}

func colorEnum() *descriptorpb.EnumDescriptorProto { return Enum("Color", "RED", "GREEN", "BLUE") }

func innerMsg(syntax string) *DP {
	if syntax == "proto3" {
		return Msg("Inner", F("a", 1, Opt, "int32"), F("s", 2, Opt, "string"))
	}
	return Msg("Inner", F("a", 1, Opt, "int32"), F("s", 2, Opt, "string"))
}

func isPackable(k string) bool {
	for _, p := range PackableKinds {
		if p == k {
			return true
		}
	}
	return k == "enum"
}

// Corpus builds the feature-matrix corpus for one variant.
func Corpus(c *Ctx) []*FileSpec {
	var out []*FileSpec
	add := func(name, feature string, core bool, f *FDP) {
		out = append(out, &FileSpec{Name: name, FD: f, Feature: feature, Core: core})
	}

	// ---- proto2 / proto3 x cardinality x kind: one message per (cardinality, kind) ----
	type card struct {
		file, syntax, prefix string
		mk                   func(pkg string, m *DP, typ string, kind string)
		packableOnly         bool
		needP3Opt            bool
		core                 bool
	}
	cards := []card{
		{file: "p2opt", syntax: "proto2", prefix: "Opt", core: true, mk: func(pkg string, m *DP, typ, kind string) { m.Field = append(m.Field, F("f", 1, Opt, typ)) }},
		{file: "p2req", syntax: "proto2", prefix: "Req", core: true, mk: func(pkg string, m *DP, typ, kind string) {
			m.Field = append(m.Field, F("f", 1, Req, typ), F("other", 2, Opt, "int32"))
		}},
		{file: "p2rep", syntax: "proto2", prefix: "Rep", core: true, mk: func(pkg string, m *DP, typ, kind string) { m.Field = append(m.Field, F("f", 1, Rep, typ)) }},
		{file: "p2packed", syntax: "proto2", prefix: "Packed", packableOnly: true, core: true, mk: func(pkg string, m *DP, typ, kind string) {
			m.Field = append(m.Field, Packed(F("f", 1, Rep, typ), true))
		}},
		{file: "p3imp", syntax: "proto3", prefix: "Imp", core: true, mk: func(pkg string, m *DP, typ, kind string) { m.Field = append(m.Field, F("f", 1, Opt, typ)) }},
		{file: "p3opt", syntax: "proto3", prefix: "O3", needP3Opt: true, core: true, mk: func(pkg string, m *DP, typ, kind string) { AddP3Optional(m, F("f", 1, Opt, typ)) }},
		{file: "p3rep", syntax: "proto3", prefix: "Rep", core: true, mk: func(pkg string, m *DP, typ, kind string) { m.Field = append(m.Field, F("f", 1, Rep, typ)) }},
		{file: "p3unpacked", syntax: "proto3", prefix: "Unp", packableOnly: true, core: true, mk: func(pkg string, m *DP, typ, kind string) {
			m.Field = append(m.Field, Packed(F("f", 1, Rep, typ), false))
		}},
	}
	for _, cd := range cards {
		if cd.needP3Opt && !c.Proto3Opt {
			continue
		}
		f := c.File(cd.file, cd.syntax)
		pkg := c.Pkg(cd.file)
		f.EnumType = append(f.EnumType, colorEnum())
		f.MessageType = append(f.MessageType, innerMsg(cd.syntax))
		for _, kt := range kindTypes(pkg) {
			if cd.packableOnly && !isPackable(kt.Name) {
				continue
			}
			m := Msg(cd.prefix + Title(kt.Name))
			cd.mk(pkg, m, kt.Typ, kt.Name)
			// a second, plain field so that "this field unset, another one set" is expressible
			if cd.file != "p2req" {
				m.Field = append(m.Field, F("tail", 15, Opt, "int32"))
			}
			f.MessageType = append(f.MessageType, m)
		}
		add(cd.file, cd.file, cd.core, f)
	}

	// ---- maps: one file per key kind (so a key kind that does not compile is attributed to itself) ----
	for _, kk := range MapKeyKinds {
		name := "mapk" + kk
		f := c.File(name, "proto3")
		pkg := c.Pkg(name)
		f.MessageType = append(f.MessageType, innerMsg("proto3"))
		m := Msg("MapK")
		MapField(m, FullName(pkg, "MapK"), "to_int", 1, kk, "int32")
		MapField(m, FullName(pkg, "MapK"), "to_str", 2, kk, "string")
		MapField(m, FullName(pkg, "MapK"), "to_msg", 3, kk, FullName(pkg, "Inner"))
		m.Field = append(m.Field, F("tail", 15, Opt, "int32"))
		f.MessageType = append(f.MessageType, m)
		add(name, "map-key-"+kk, kk == "string" || kk == "int32", f)
	}
	{
		f := c.File("mapv", "proto3")
		pkg := c.Pkg("mapv")
		f.EnumType = append(f.EnumType, colorEnum())
		f.MessageType = append(f.MessageType, innerMsg("proto3"))
		for _, kt := range kindTypes(pkg) {
			m := Msg("MapV" + Title(kt.Name))
			MapField(m, FullName(pkg, "MapV"+Title(kt.Name)), "m", 1, "string", kt.Typ)
			m.Field = append(m.Field, F("tail", 15, Opt, "int32"))
			f.MessageType = append(f.MessageType, m)
		}
		add("mapv", "map-values", true, f)
	}
	{ // proto2 maps
		f := c.File("map2", "proto2")
		pkg := c.Pkg("map2")
		f.MessageType = append(f.MessageType, innerMsg("proto2"))
		m := Msg("Map2")
		MapField(m, FullName(pkg, "Map2"), "si", 1, "string", "int64")
		MapField(m, FullName(pkg, "Map2"), "ib", 2, "int32", "bytes")
		MapField(m, FullName(pkg, "Map2"), "sm", 3, "string", FullName(pkg, "Inner"))
		f.MessageType = append(f.MessageType, m)
		add("map2", "map-proto2", false, f)
	}

	// ---- oneofs ----
	for _, syn := range []string{"proto3", "proto2"} {
		name := "oneof3"
		if syn == "proto2" {
			name = "oneof2"
		}
		f := c.File(name, syn)
		pkg := c.Pkg(name)
		f.EnumType = append(f.EnumType, colorEnum())
		f.MessageType = append(f.MessageType, innerMsg(syn))
		m := Msg("Big", F("before", 1, Opt, "int32"))
		var members []*FP
		for i, kt := range kindTypes(pkg) {
			members = append(members, F("o_"+kt.Name, int32(10+i), Opt, kt.Typ))
		}
		Oneof(m, "choice", members...)
		m.Field = append(m.Field, F("after", 40, Opt, "string"))
		f.MessageType = append(f.MessageType, m)
		two := Msg("Two")
		Oneof(two, "x", F("xi", 1, Opt, "int32"), F("xs", 2, Opt, "string"))
		Oneof(two, "y", F("ym", 3, Opt, FullName(pkg, "Inner")), F("yb", 4, Opt, "bytes"))
		f.MessageType = append(f.MessageType, two)
		add(name, "oneof-"+syn, syn == "proto3", f)
	}

	// ---- nested / recursive ----
	{
		f := c.File("nested", "proto3")
		pkg := c.Pkg("nested")
		tree := Msg("Tree", F("v", 1, Opt, "int32"), F("children", 2, Rep, FullName(pkg, "Tree")), F("left", 3, Opt, FullName(pkg, "Tree")), F("name", 4, Opt, "string"))
		MapField(tree, FullName(pkg, "Tree"), "by_name", 5, "string", FullName(pkg, "Tree"))
		a := Msg("A", F("b", 1, Opt, FullName(pkg, "B")), F("x", 2, Opt, "int64"))
		b := Msg("B", F("a", 1, Opt, FullName(pkg, "A")), F("ys", 2, Rep, "string"))
		outer := Msg("Outer", F("m", 1, Opt, FullName(pkg, "Outer", "Middle")), F("i", 2, Opt, FullName(pkg, "Outer", "Middle", "Innermost")))
		middle := Msg("Middle", F("in", 1, Opt, FullName(pkg, "Outer", "Middle", "Innermost")), F("n", 2, Opt, "uint32"))
		middle.NestedType = append(middle.NestedType, Msg("Innermost", F("z", 1, Opt, "sint64"), F("raw", 2, Opt, "bytes")))
		outer.NestedType = append(outer.NestedType, middle)
		f.MessageType = append(f.MessageType, tree, a, b, outer)
		add("nested", "nested-recursive", true, f)
	}

	// ---- well-known types ----
	{
		f := c.File("wkt", "proto3")
		f.Dependency = []string{"google/protobuf/timestamp.proto", "google/protobuf/duration.proto", "google/protobuf/wrappers.proto"}
		m := Msg("Event", F("id", 1, Opt, "string"), F("at", 2, Opt, ".google.protobuf.Timestamp"), F("took", 3, Opt, ".google.protobuf.Duration"),
			F("note", 4, Opt, ".google.protobuf.StringValue"), F("history", 5, Rep, ".google.protobuf.Timestamp"), F("count", 6, Opt, ".google.protobuf.Int64Value"))
		// further messages that do NOT use the imported packages (file-per-message output: one import list per file)
		plain := Msg("Plain", F("s", 1, Opt, "string"), F("n", 2, Opt, "int32"))
		timer := Msg("Timer", F("d", 1, Opt, ".google.protobuf.Duration"), F("label", 2, Opt, "string"))
		f.MessageType = append(f.MessageType, m, plain, timer)
		add("wkt", "well-known-types", true, f)
	}

	// ---- proto2 extensions: one file per kind ----
	for _, kt := range kindTypes("x") {
		name := "ext" + kt.Name
		f := c.File(name, "proto2")
		pkg := c.Pkg(name)
		f.EnumType = append(f.EnumType, colorEnum())
		f.MessageType = append(f.MessageType, innerMsg("proto2"))
		typ := kt.Typ
		if kt.Name == "enum" {
			typ = "enum:" + FullName(pkg, "Color")
		} else if kt.Name == "message" {
			typ = FullName(pkg, "Inner")
		}
		base := Msg("Base", F("base", 1, Opt, "int32"))
		ExtRange(base, 100, 199)
		holder := Msg("Holder")
		holder.Extension = append(holder.Extension, Ext("e", 100, Opt, typ, FullName(pkg, "Base")))
		f.MessageType = append(f.MessageType, base, holder)
		add(name, "extension-"+kt.Name, kt.Name == "int32" || kt.Name == "string" || kt.Name == "message", f)
	}
	{ // extension scopes: file scope, nested message scope, two extensions on one message
		f := c.File("extscope", "proto2")
		pkg := c.Pkg("extscope")
		base := Msg("Base", F("base", 1, Opt, "int32"))
		ExtRange(base, 100, 199)
		f.Extension = append(f.Extension, Ext("file_scope", 110, Opt, "int32", FullName(pkg, "Base")))
		holder := Msg("Holder")
		holder.Extension = append(holder.Extension, Ext("msg_scope_a", 111, Opt, "int64", FullName(pkg, "Base")), Ext("msg_scope_b", 112, Opt, "string", FullName(pkg, "Base")))
		deep := Msg("Deep")
		deep.Extension = append(deep.Extension, Ext("nested_scope", 113, Opt, "int32", FullName(pkg, "Base")))
		holder.NestedType = append(holder.NestedType, deep)
		f.MessageType = append(f.MessageType, base, holder)
		add("extscope", "extension-scopes", false, f)
	}

	{ // ONE declaring message with extend blocks for TWO extendees, the same field number used for both
		f := c.File("extmulti", "proto2")
		pkg := c.Pkg("extmulti")
		alpha := Msg("Alpha", F("a", 1, Opt, "int32"))
		ExtRange(alpha, 100, 199)
		beta := Msg("Beta", F("b", 1, Opt, "string"))
		ExtRange(beta, 100, 199)
		inner := Msg("Note", F("text", 1, Opt, "string"), F("n", 2, Opt, "sint32"))
		holder := Msg("Holder")
		holder.Extension = append(holder.Extension,
			Ext("alpha_note", 100, Opt, FullName(pkg, "Note"), FullName(pkg, "Alpha")),
			Ext("alpha_more", 101, Opt, FullName(pkg, "Note"), FullName(pkg, "Alpha")),
			Ext("beta_note", 100, Opt, FullName(pkg, "Note"), FullName(pkg, "Beta")),
			Ext("beta_tag", 102, Opt, FullName(pkg, "Note"), FullName(pkg, "Beta")))
		f.MessageType = append(f.MessageType, alpha, beta, inner, holder)
		add("extmulti", "one-message-extending-two-extendees", true, f)
	}
	{ // ... and the same with DISTINCT numbers (every extension must reach the code of its own extendee)
		f := c.File("extmulti2", "proto2")
		pkg := c.Pkg("extmulti2")
		alpha := Msg("Alpha", F("a", 1, Opt, "int32"))
		ExtRange(alpha, 100, 199)
		beta := Msg("Beta", F("b", 1, Opt, "string"))
		ExtRange(beta, 100, 199)
		inner := Msg("Note", F("text", 1, Opt, "string"), F("n", 2, Opt, "sint32"))
		holder := Msg("Holder")
		holder.Extension = append(holder.Extension,
			Ext("alpha_note", 100, Opt, FullName(pkg, "Note"), FullName(pkg, "Alpha")),
			Ext("beta_note", 102, Opt, FullName(pkg, "Note"), FullName(pkg, "Beta")),
			Ext("alpha_more", 101, Opt, FullName(pkg, "Note"), FullName(pkg, "Alpha")),
			Ext("beta_tag", 103, Opt, FullName(pkg, "Note"), FullName(pkg, "Beta")))
		f.MessageType = append(f.MessageType, alpha, beta, inner, holder)
		add("extmulti2", "one-message-extending-two-extendees-distinct-numbers", true, f)
	}
	{ // extensions declared with explicit defaults (GetExtension on an unset one returns the default on the V1 runtimes)
		f := c.File("extdefault", "proto2")
		pkg := c.Pkg("extdefault")
		f.EnumType = append(f.EnumType, colorEnum())
		base := Msg("Base", F("base", 1, Opt, "int32"))
		ExtRange(base, 100, 199)
		holder := Msg("Holder")
		def := func(fd *FP, v string) *FP { fd.DefaultValue = proto.String(v); return fd }
		holder.Extension = append(holder.Extension,
			def(Ext("d_int", 120, Opt, "int32", FullName(pkg, "Base")), "7"),
			def(Ext("d_str", 121, Opt, "string", FullName(pkg, "Base")), "dflt"),
			def(Ext("d_bool", 122, Opt, "bool", FullName(pkg, "Base")), "true"),
			def(Ext("d_enum", 123, Opt, "enum:"+FullName(pkg, "Color"), FullName(pkg, "Base")), "GREEN"),
			def(Ext("d_dbl", 124, Opt, "double", FullName(pkg, "Base")), "2.5"),
			Ext("no_default", 125, Opt, "int64", FullName(pkg, "Base")),
			def(Ext("d_bytes", 126, Opt, "bytes", FullName(pkg, "Base")), "Hello, bytes\\000\\377"),
			def(Ext("d_float", 127, Opt, "float", FullName(pkg, "Base")), "-1.5"),
			def(Ext("d_sint64", 128, Opt, "sint64", FullName(pkg, "Base")), "-9"),
			def(Ext("d_uint32", 129, Opt, "uint32", FullName(pkg, "Base")), "4000000000"),
			def(Ext("d_fixed64", 130, Opt, "fixed64", FullName(pkg, "Base")), "12"),
			Ext("no_default_bytes", 131, Opt, "bytes", FullName(pkg, "Base")))
		f.MessageType = append(f.MessageType, base, holder)
		add("extdefault", "extension-defaults", false, f)
	}

	{ // extension numbers at the ends of "extensions 100 to max" and around the reserved 19000-19999 block
		f := c.File("extmax", "proto2")
		pkg := c.Pkg("extmax")
		base := Msg("Base", F("base", 1, Opt, "int32"))
		ExtRange(base, 100, 1<<29-1) // extensions 100 to max
		holder := Msg("Holder")
		holder.Extension = append(holder.Extension,
			Ext("x_lo", 100, Opt, "int32", FullName(pkg, "Base")),
			Ext("x_before_reserved", 18999, Opt, "string", FullName(pkg, "Base")),
			Ext("x_after_reserved", 20000, Opt, "sint64", FullName(pkg, "Base")),
			Ext("x_max_minus_1", 1<<29-2, Opt, "bytes", FullName(pkg, "Base")),
			Ext("x_max", 1<<29-1, Opt, "int32", FullName(pkg, "Base")))
		f.MessageType = append(f.MessageType, base, holder)
		add("extmax", "extension-number-limits", false, f)
	}

	// ---- field numbers at key-size boundaries ----
	{
		f := c.File("numbers", "proto3")
		m := Msg("Nums")
		for i, n := range []int32{1, 15, 16, 2047, 2048, 1<<18 - 1, 1 << 18, 1<<25 - 1, 1 << 25, 1<<26 - 1, 1 << 26, 1 << 28, 1<<29 - 1} {
			k := []string{"int32", "string", "fixed32", "bytes", "sint64", "bool", "double"}[i%7]
			m.Field = append(m.Field, F(sprintf("n%d", n), n, Opt, k))
		}
		m.Field = append(m.Field, F("rep_big", 1<<27, Rep, "uint32"))
		// every boundary number once as a string and once as bytes (the length-delimited kinds have their own key code)
		ms, mb := Msg("NumsStr"), Msg("NumsBytes")
		for _, n := range []int32{1, 15, 16, 17, 2047, 2048, 1<<18 - 1, 1 << 18, 1<<25 - 1, 1 << 25, 1<<29 - 1} {
			ms.Field = append(ms.Field, F(sprintf("s%d", n), n, Opt, "string"))
			mb.Field = append(mb.Field, F(sprintf("b%d", n), n, Opt, "bytes"))
		}
		ms.Field = append(ms.Field, F("rep16", 1<<20, Rep, "string"))
		f.MessageType = append(f.MessageType, m, ms, mb)
		add("numbers", "field-number-boundaries", true, f)
	}

	// ---- names ----
	{
		f := c.File("namesnested", "proto3")
		pkg := c.Pkg("namesnested")
		a := Msg("Alpha", F("item", 1, Opt, FullName(pkg, "Alpha", "Item")))
		a.NestedType = append(a.NestedType, Msg("Item", F("x", 1, Opt, "int32")))
		b := Msg("Beta", F("item", 1, Opt, FullName(pkg, "Beta", "Item")))
		b.NestedType = append(b.NestedType, Msg("Item", F("y", 1, Opt, "string")))
		f.MessageType = append(f.MessageType, a, b)
		add("namesnested", "nested-messages-sharing-a-short-name", true, f)
	}
	{
		f := c.File("namescase", "proto3")
		f.MessageType = append(f.MessageType, Msg("Widget", F("x", 1, Opt, "int32")), Msg("WIDGET", F("y", 1, Opt, "string")))
		add("namescase", "message-names-differing-by-case", true, f)
	}

	// ---- required fields in every position ----
	{
		f := c.File("required", "proto2")
		pkg := c.Pkg("required")
		inner := Msg("Need", F("need", 1, Req, "int32"), F("s", 2, Opt, "string"))
		inField := Msg("InField", F("child", 1, Opt, FullName(pkg, "Need")), F("x", 2, Opt, "int32"))
		inReq := Msg("InRequiredField", F("child", 1, Req, FullName(pkg, "Need")))
		inList := Msg("InList", F("children", 1, Rep, FullName(pkg, "Need")))
		inMap := Msg("InMap")
		MapField(inMap, FullName(pkg, "InMap"), "children", 1, "string", FullName(pkg, "Need"))
		inOneof := Msg("InOneof")
		Oneof(inOneof, "o", F("child", 1, Opt, FullName(pkg, "Need")), F("text", 2, Opt, "string"))
		many := Msg("Many", F("r_int", 1, Req, "int32"), F("r_str", 2, Req, "string"), F("r_bytes", 3, Req, "bytes"), F("r_bool", 4, Req, "bool"),
			F("r_dbl", 5, Req, "double"), F("r_fix", 6, Req, "sfixed32"), F("r_msg", 7, Req, FullName(pkg, "Need")), F("opt", 8, Opt, "string"))
		deep := Msg("Deep", F("level", 1, Opt, FullName(pkg, "InField")))
		f.MessageType = append(f.MessageType, inner, inField, inReq, inList, inMap, inOneof, many, deep)
		add("required", "required-fields", true, f)
	}

	{ // required fields only in NESTED message types (no top-level message of the file has one)
		f := c.File("reqnested", "proto2")
		pkg := c.Pkg("reqnested")
		outer := Msg("Outer", F("child", 1, Opt, FullName(pkg, "Outer", "Inner")), F("label", 2, Opt, "string"))
		outer.NestedType = append(outer.NestedType, Msg("Inner", F("need", 1, Req, "int32"), F("note", 2, Opt, "string")))
		plain := Msg("Plain", F("x", 1, Opt, "int64"))
		f.MessageType = append(f.MessageType, outer, plain)
		add("reqnested", "required-only-in-nested-messages", true, f)
	}

	{ // required fields only in messages declared AFTER messages with nested types (map entry, nested message) that have none
		f := c.File("reqlater", "proto2")
		pkg := c.Pkg("reqlater")
		labels := Msg("Labels", F("title", 2, Opt, "string"))
		MapField(labels, FullName(pkg, "Labels"), "values", 1, "string", "string")
		holder := Msg("Holder", F("e", 1, Opt, FullName(pkg, "Holder", "Empty")))
		holder.NestedType = append(holder.NestedType, Msg("Empty", F("n", 1, Opt, "int32")))
		item := Msg("Item", F("id", 1, Req, "int32"), F("tag", 2, Opt, "string"))
		f.MessageType = append(f.MessageType, labels, holder, item)
		add("reqlater", "required-only-in-later-messages", true, f)
	}
	{ // required fields that declare an explicit default (a default is what a getter returns for an UNSET field: the
		// field is still required on the wire)
		f := c.File("reqdefault", "proto2")
		pkg := c.Pkg("reqdefault")
		dflt := func(fd *FP, v string) *FP { fd.DefaultValue = proto.String(v); return fd }
		tuning := Msg("Tuning", dflt(F("on", 1, Req, "bool"), "true"), F("x", 2, Opt, "int32"))
		cfg := Msg("Cfg", F("id", 1, Req, "int32"), dflt(F("level", 2, Req, "int32"), "3"), dflt(F("mode", 3, Req, "string"), "auto"),
			F("t", 4, Opt, FullName(pkg, "Tuning")), F("ts", 5, Rep, FullName(pkg, "Tuning")))
		f.MessageType = append(f.MessageType, tuning, cfg)
		add("reqdefault", "required-fields-with-explicit-defaults", true, f)
	}
	{ // ... and only in the nested type of the LAST message, after siblings with nested types
		f := c.File("reqlast", "proto2")
		pkg := c.Pkg("reqlast")
		// (distinct short names: nested messages sharing a short name are the recorded per-message file-name finding)
		first := Msg("First", F("k", 1, Opt, FullName(pkg, "First", "KidA")))
		first.NestedType = append(first.NestedType, Msg("KidA", F("n", 1, Opt, "int32")))
		second := Msg("Second", F("x", 1, Opt, "string"))
		last := Msg("Last", F("k", 1, Opt, FullName(pkg, "Last", "KidB")))
		last.NestedType = append(last.NestedType, Msg("KidB", F("need", 1, Req, "bytes")))
		f.MessageType = append(f.MessageType, first, second, last)
		add("reqlast", "required-only-in-last-nested-message", true, f)
	}

	{ // two nested message types sharing a SHORT name, the earlier without and the later with a required field
		// (file-per-message output of this file collides on the file name: the recorded C16 finding)
		f := c.File("reqshadow", "proto2")
		pkg := c.Pkg("reqshadow")
		query := Msg("Query", F("o", 1, Opt, FullName(pkg, "Query", "Options")), F("q", 2, Opt, "string"))
		query.NestedType = append(query.NestedType, Msg("Options", F("limit", 1, Opt, "int32")))
		reply := Msg("Reply", F("o", 1, Opt, FullName(pkg, "Reply", "Options")), F("list", 2, Rep, FullName(pkg, "Reply", "Options")), F("r", 4, Opt, "string"))
		reply.NestedType = append(reply.NestedType, Msg("Options", F("code", 1, Req, "int32"), F("note", 2, Opt, "string")))
		MapField(reply, FullName(pkg, "Reply"), "by_name", 3, "string", FullName(pkg, "Reply", "Options"))
		other := Msg("Other", F("need", 1, Req, "string"))
		f.MessageType = append(f.MessageType, query, reply, other)
		add("reqshadow", "required-in-later-message-of-same-short-name", true, f)
	}

	if len(c.SpecialFields) > 0 { // fields whose Go names carry a '_' suffix (specialname option)
		f := c.File("special", "proto3")
		m := Msg("Blob", F("name", 1, Opt, "string"))
		kinds := []string{"int32", "string", "bytes", "int64", "bool", "double"}
		for i, n := range c.SpecialFields {
			m.Field = append(m.Field, F(n, int32(i+2), Opt, kinds[i%len(kinds)]))
		}
		m.Field = append(m.Field, F("tail", 20, Rep, "uint32"))
		f.MessageType = append(f.MessageType, m)
		add("special", "special-field-names", true, f)

		// the same names on proto2 fields of every cardinality, incl. required message fields
		f2 := c.File("special2", "proto2")
		pkg := c.Pkg("special2")
		inner := Msg("Inner", F("n", 1, Req, "int32"), F("t", 2, Opt, "string"))
		m2 := Msg("Holder", F("label", 1, Opt, "string"))
		shapes := []struct {
			label descriptorpb.FieldDescriptorProto_Label
			typ   string
		}{{Req, FullName(pkg, "Inner")}, {Opt, "string"}, {Rep, "int32"}, {Req, "int32"}, {Opt, FullName(pkg, "Inner")}, {Opt, "bytes"}}
		for i, n := range c.SpecialFields {
			sh := shapes[i%len(shapes)]
			m2.Field = append(m2.Field, F(n, int32(i+2), sh.label, sh.typ))
		}
		f2.MessageType = append(f2.MessageType, inner, m2)
		add("special2", "special-field-names-proto2-required", true, f2)
	}

	{ // a oneof whose member names collide (in CamelCase) with a message and an enum nested in the same parent:
		// the message generators append '_' to the wrapper type names (Event_Created_ / Event_Level_)
		f := c.File("oneofclash", "proto3")
		pkg := c.Pkg("oneofclash")
		ev := Msg("Event", F("id", 10, Opt, "int64"))
		ev.NestedType = append(ev.NestedType, Msg("Created", F("n", 1, Opt, "int32")))
		ev.EnumType = append(ev.EnumType, &descriptorpb.EnumDescriptorProto{Name: proto.String("Level"), Value: []*descriptorpb.EnumValueDescriptorProto{
			{Name: proto.String("L0"), Number: proto.Int32(0)}, {Name: proto.String("L1"), Number: proto.Int32(1)}}})
		Oneof(ev, "kind", F("created", 1, Opt, FullName(pkg, "Event", "Created")), F("level", 2, Opt, "enum:"+FullName(pkg, "Event", "Level")), F("note", 3, Opt, "string"))
		f.MessageType = append(f.MessageType, ev)
		add("oneofclash", "oneof-member-named-like-a-nested-type", true, f)
	}

	{ // a .proto whose path (and Go import path) contains upper-case characters: only the MESSAGE part of a
		// per-message output file name is lower-cased
		f := c.File("CamelFile", "proto3")
		f.MessageType = append(f.MessageType, Msg("Widget", F("id", 1, Opt, "int32"), F("name", 2, Opt, "string")), Msg("GadgetBox", F("n", 1, Rep, "sint64")))
		add("CamelFile", "upper-case-in-file-name", true, f)
	}

	// ---- imports: types that live in ANOTHER .proto / Go package than the file being generated ----
	{ // the imported file: its Go package name (impdeppb) differs from the last element of its import path (impdep)
		f := c.File("impdep", "proto3")
		f.Options.GoPackage = proto.String(c.GoPrefix + "/impdep;impdeppb")
		pkg := c.Pkg("impdep")
		f.EnumType = append(f.EnumType, &descriptorpb.EnumDescriptorProto{Name: proto.String("Unit"), Value: []*descriptorpb.EnumValueDescriptorProto{
			{Name: proto.String("UNIT_NONE"), Number: proto.Int32(0)}, {Name: proto.String("UNIT_S"), Number: proto.Int32(1)}, {Name: proto.String("UNIT_MS"), Number: proto.Int32(2)}}})
		f.MessageType = append(f.MessageType, Msg("Stamp", F("t", 1, Opt, "int64"), F("zone", 2, Opt, "string"), F("unit", 3, Opt, "enum:"+FullName(pkg, "Unit"))))
		add("impdep", "imported-package", true, f)
	}
	{ // importer: message / enum / repeated / map / oneof fields of imported types
		f := c.File("imp3", "proto3")
		f.Dependency = []string{c.PathPrefix + "/impdep.proto"}
		dep := c.Pkg("impdep")
		m := Msg("Uses", F("at", 1, Opt, FullName(dep, "Stamp")), F("hist", 2, Rep, FullName(dep, "Stamp")), F("label", 5, Opt, "string"))
		if !c.GogoWKT {
			// (not for gogo: protobuf-go's legacy wrapper, which the harness bridge uses to reach gogo structs, cannot
			// resolve an enum imported from another gogo-registered file and panics on the placeholder it substitutes)
			m.Field = append(m.Field, F("unit", 3, Opt, "enum:"+FullName(dep, "Unit")), F("units", 4, Rep, "enum:"+FullName(dep, "Unit")))
		}
		MapField(m, FullName(c.Pkg("imp3"), "Uses"), "by_name", 6, "string", FullName(dep, "Stamp"))
		Oneof(m, "pick", F("o_stamp", 7, Opt, FullName(dep, "Stamp")), F("o_text", 8, Opt, "string"))
		f.MessageType = append(f.MessageType, m, Msg("Local", F("t", 1, Opt, "string"), F("k", 2, Rep, "sint32")))
		add("imp3", "fields-of-imported-types", true, f)
		out[len(out)-1].Imports = []string{"impdep"}
	}
	{ // a file that re-exports impdep with `import public`
		f := c.File("pubmid", "proto3")
		f.Dependency = []string{c.PathPrefix + "/impdep.proto"}
		f.PublicDependency = []int32{0}
		f.MessageType = append(f.MessageType, Msg("Mid", F("m", 1, Opt, "string"), F("n", 2, Rep, "uint32")))
		add("pubmid", "import-public-re-export", true, f)
		out[len(out)-1].Imports = []string{"impdep"}
	}
	{ // importer that reaches impdep's types ONLY through pubmid's `import public` (it does not import impdep itself)
		f := c.File("imppub", "proto3")
		f.Dependency = []string{c.PathPrefix + "/pubmid.proto"}
		dep := c.Pkg("impdep")
		m := Msg("Via", F("at", 1, Opt, FullName(dep, "Stamp")), F("hist", 2, Rep, FullName(dep, "Stamp")), F("mid", 3, Opt, FullName(c.Pkg("pubmid"), "Mid")), F("label", 4, Opt, "string"))
		if !c.GogoWKT {
			m.Field = append(m.Field, F("unit", 5, Opt, "enum:"+FullName(dep, "Unit")))
		}
		MapField(m, FullName(c.Pkg("imppub"), "Via"), "by_id", 6, "int32", FullName(dep, "Stamp"))
		Oneof(m, "pick", F("o_stamp", 7, Opt, FullName(dep, "Stamp")), F("o_mid", 8, Opt, FullName(c.Pkg("pubmid"), "Mid")))
		f.MessageType = append(f.MessageType, m)
		add("imppub", "types-reached-through-import-public", true, f)
		out[len(out)-1].Imports = []string{"impdep", "pubmid"}
	}
	{ // a proto3 message that contains proto2 messages with required fields (defined in file "required")
		f := c.File("p3req", "proto3")
		f.Dependency = []string{c.PathPrefix + "/required.proto"}
		dep := c.Pkg("required")
		m := Msg("Outer", F("name", 1, Opt, "string"), F("child", 2, Opt, FullName(dep, "Need")), F("kids", 3, Rep, FullName(dep, "Need")), F("n", 4, Opt, "int32"))
		f.MessageType = append(f.MessageType, m)
		add("p3req", "proto3-message-with-proto2-required-children", true, f)
		out[len(out)-1].Imports = []string{"required"}
	}

	// ---- composites: everything healthy at once ----
	for _, syn := range []string{"proto3", "proto2"} {
		name := "mix3"
		if syn == "proto2" {
			name = "mix2"
		}
		f := c.File(name, syn)
		pkg := c.Pkg(name)
		f.EnumType = append(f.EnumType, colorEnum())
		sub := Msg("Sub", F("id", 1, Opt, "uint64"), F("tags", 2, Rep, "string"), F("c", 3, Opt, "enum:"+FullName(pkg, "Color")))
		m := Msg("Mix", F("i32", 1, Opt, "int32"), F("i64", 2, Opt, "int64"), F("u32", 3, Opt, "uint32"), F("s64", 4, Opt, "sint64"),
			F("str", 5, Opt, "string"), F("f", 6, Opt, "float"), F("d", 7, Opt, "double"), F("b", 8, Opt, "bool"),
			F("sub", 9, Opt, FullName(pkg, "Sub")), F("subs", 10, Rep, FullName(pkg, "Sub")), F("nums", 11, Rep, "int64"), F("names", 12, Rep, "string"),
			F("fx", 13, Opt, "fixed64"), F("color", 14, Opt, "enum:"+FullName(pkg, "Color")), F("raw", 15, Opt, "bytes"), F("u64s", 16, Rep, "uint64"), F("blobs", 19, Rep, "bytes"))
		MapField(m, FullName(pkg, "Mix"), "attrs", 17, "string", "string")
		MapField(m, FullName(pkg, "Mix"), "counts", 18, "int32", "int64")
		Oneof(m, "pick", F("p_int", 20, Opt, "int32"), F("p_str", 21, Opt, "string"), F("p_sub", 22, Opt, FullName(pkg, "Sub")))
		f.MessageType = append(f.MessageType, sub, m)
		add(name, "composite-"+syn, true, f)
	}
	_ = proto.String
	return out
}
