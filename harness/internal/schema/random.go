package schema

// RandomFiles is filled in by random_gen.go (seeded random schemas); see there.
var RandomFiles = func(c *Ctx, seed uint64, n int) []*FileSpec { return nil }
