package schema

import (
	"fmt"
	"math/rand"

	"google.golang.org/protobuf/proto"
	"google.golang.org/protobuf/types/descriptorpb"
)

// RandomFiles builds n seeded random schema files over the same grammar as the feature matrix: 1-5
// messages per file, up to 8 fields each, every scalar kind, enums, message references (also
// recursive), maps, real oneofs, proto3 optional (where the variant supports it), proto2 required /
// packed fields, message-scoped extensions of message type, nesting depth up to 2.  The result is a pure
// function of (ctx, seed, n): every VERIF_SEED explores new feature combinations, and the same seed
// regenerates the same schemas for replay.
var RandomFiles = func(c *Ctx, seed uint64, n int) []*FileSpec {
	var out []*FileSpec
	for i := 0; i < n; i++ {
		r := rand.New(rand.NewSource(int64(seed)*7919 + int64(i)*104729 + 17))
		syntax := "proto3"
		if r.Intn(2) == 0 {
			syntax = "proto2"
		}
		name := fmt.Sprintf("rnd%dx%d", seed, i)
		f := c.File(name, syntax)
		pkg := c.Pkg(name)
		f.EnumType = append(f.EnumType, colorEnum())
		nm := 1 + r.Intn(5)
		var names []string
		for j := 0; j < nm; j++ {
			names = append(names, fmt.Sprintf("M%d", j))
		}
		for j, mn := range names {
			m := Msg(mn)
			num := int32(1)
			nextNum := func() int32 {
				v := num
				switch r.Intn(6) {
				case 0:
					num += int32(1 + r.Intn(20))
				case 1:
					num += int32(2000 + r.Intn(100))
				default:
					num++
				}
				if num >= 19000 && num <= 19999 { // reserved for the protobuf implementation
					num = 20000
				}
				return v
			}
			nf := 1 + r.Intn(8)
			for k := 0; k < nf; k++ {
				fname := fmt.Sprintf("f%d", k)
				typ := ScalarKinds[r.Intn(len(ScalarKinds))]
				switch r.Intn(7) {
				case 0:
					typ = "enum:" + FullName(pkg, "Color")
				case 1:
					typ = FullName(pkg, names[r.Intn(len(names))]) // may be recursive
				}
				isMsg := typ[0] == '.'
				switch shape := r.Intn(10); {
				case shape == 0 && !isMsg || shape == 1: // map
					key := MapKeyKinds[r.Intn(len(MapKeyKinds))]
					MapField(m, FullName(pkg, mn), fname, nextNum(), key, typ)
				case shape == 2 || shape == 3: // repeated
					fd := F(fname, nextNum(), Rep, typ)
					if !isMsg && typ != "string" && typ != "bytes" && r.Intn(2) == 0 {
						Packed(fd, r.Intn(2) == 0)
					}
					m.Field = append(m.Field, fd)
				case shape == 4 && syntax == "proto3" && c.Proto3Opt:
					AddP3Optional(m, F(fname, nextNum(), Opt, typ))
				case shape == 5 && syntax == "proto2" && !isMsg:
					m.Field = append(m.Field, F(fname, nextNum(), Req, typ))
				default:
					m.Field = append(m.Field, F(fname, nextNum(), Opt, typ))
				}
			}
			if r.Intn(3) == 0 { // a real oneof
				var members []*FP
				for k := 0; k < 2+r.Intn(3); k++ {
					typ := ScalarKinds[r.Intn(len(ScalarKinds))]
					if r.Intn(4) == 0 {
						typ = FullName(pkg, names[r.Intn(len(names))])
					}
					members = append(members, F(fmt.Sprintf("o%d", k), nextNum(), Opt, typ))
				}
				Oneof(m, "pick", members...)
			}
			if j == 0 && r.Intn(3) == 0 { // a nested message type used by a field
				nested := Msg("Nested", F("x", 1, Opt, "sint32"), F("ys", 2, Rep, "bytes"))
				m.NestedType = append(m.NestedType, nested)
				m.Field = append(m.Field, F("nested", nextNum(), Opt, FullName(pkg, mn, "Nested")))
			}
			realOneofsFirst(m)
			f.MessageType = append(f.MessageType, m)
		}
		if syntax == "proto2" && r.Intn(2) == 0 { // a message-typed extension declared in a top-level message
			base := f.MessageType[0]
			ExtRange(base, 5000, 5099)
			holder := Msg("ExtHolder")
			holder.Extension = append(holder.Extension, Ext("ext_msg", 5000, Opt, FullName(pkg, names[len(names)-1]), FullName(pkg, base.GetName())))
			f.MessageType = append(f.MessageType, holder)
		}
		out = append(out, &FileSpec{Name: name, FD: f, Feature: "random-schema", Core: true})
	}
	return out
}

// realOneofsFirst reorders the oneof declarations of m so that real oneofs precede the synthetic ones of
// proto3 optional fields (a descriptor is only valid in that order) and re-indexes the fields.
func realOneofsFirst(m *DP) {
	synthetic := map[int32]bool{}
	for _, f := range m.Field {
		if f.OneofIndex != nil && f.GetProto3Optional() {
			synthetic[f.GetOneofIndex()] = true
		}
	}
	var order []int32
	for i := range m.OneofDecl {
		if !synthetic[int32(i)] {
			order = append(order, int32(i))
		}
	}
	for i := range m.OneofDecl {
		if synthetic[int32(i)] {
			order = append(order, int32(i))
		}
	}
	remap := map[int32]int32{}
	decls := make([]*descriptorpb.OneofDescriptorProto, len(order))
	for newIdx, oldIdx := range order {
		remap[oldIdx] = int32(newIdx)
		decls[newIdx] = m.OneofDecl[oldIdx]
	}
	m.OneofDecl = decls
	for _, f := range m.Field {
		if f.OneofIndex != nil {
			f.OneofIndex = proto.Int32(remap[f.GetOneofIndex()])
		}
	}
}
