// Package schema builds FileDescriptorProto values programmatically (there is no protoc and no
// .proto parser in the sandbox): a small DSL, the feature-matrix corpus and a seeded random schema
// generator.  Every file is parameterised by a proto-package prefix and a Go import-path prefix so
// that the same schema can be generated for several runtime variants inside one binary.
package schema

import (
	"fmt"
	"strings"

	"google.golang.org/protobuf/proto"
	"google.golang.org/protobuf/types/descriptorpb"
)

type (
	FDP = descriptorpb.FileDescriptorProto
	DP  = descriptorpb.DescriptorProto
	FP  = descriptorpb.FieldDescriptorProto
)

// Kind names as used by protoreflect.Kind.String().
var ScalarKinds = []string{"double", "float", "int32", "int64", "uint32", "uint64", "sint32", "sint64", "fixed32", "fixed64", "sfixed32", "sfixed64", "bool", "string", "bytes"}

// PackableKinds are the scalar kinds that may be packed (everything but string/bytes).
var PackableKinds = []string{"double", "float", "int32", "int64", "uint32", "uint64", "sint32", "sint64", "fixed32", "fixed64", "sfixed32", "sfixed64", "bool"}

// MapKeyKinds are the legal map key kinds.
var MapKeyKinds = []string{"int32", "int64", "uint32", "uint64", "sint32", "sint64", "fixed32", "fixed64", "sfixed32", "sfixed64", "bool", "string"}

var kindType = map[string]descriptorpb.FieldDescriptorProto_Type{
	"double": descriptorpb.FieldDescriptorProto_TYPE_DOUBLE, "float": descriptorpb.FieldDescriptorProto_TYPE_FLOAT,
	"int32": descriptorpb.FieldDescriptorProto_TYPE_INT32, "int64": descriptorpb.FieldDescriptorProto_TYPE_INT64,
	"uint32": descriptorpb.FieldDescriptorProto_TYPE_UINT32, "uint64": descriptorpb.FieldDescriptorProto_TYPE_UINT64,
	"sint32": descriptorpb.FieldDescriptorProto_TYPE_SINT32, "sint64": descriptorpb.FieldDescriptorProto_TYPE_SINT64,
	"fixed32": descriptorpb.FieldDescriptorProto_TYPE_FIXED32, "fixed64": descriptorpb.FieldDescriptorProto_TYPE_FIXED64,
	"sfixed32": descriptorpb.FieldDescriptorProto_TYPE_SFIXED32, "sfixed64": descriptorpb.FieldDescriptorProto_TYPE_SFIXED64,
	"bool": descriptorpb.FieldDescriptorProto_TYPE_BOOL, "string": descriptorpb.FieldDescriptorProto_TYPE_STRING,
	"bytes": descriptorpb.FieldDescriptorProto_TYPE_BYTES,
}

// Ctx carries the naming of one generated variant.
type Ctx struct {
	ProtoPrefix string // e.g. "vf.gv2s"   -> package vf.gv2s.<file>
	GoPrefix    string // e.g. "verif/harness/gencode/gen/gv2s" -> go_package <GoPrefix>/<file>
	PathPrefix  string // e.g. "vf/gv2s"   -> file name vf/gv2s/<file>.proto
	Proto3Opt   bool   // the message generator of this variant supports proto3 optional
	GogoWKT     bool   // well-known types come from github.com/gogo/protobuf/types
	// SpecialFields: proto field names whose Go name the message generator of this variant suffixes with '_'
	// because it collides with a method (the plug-in is told through its specialname option)
	SpecialFields []string
}

// File starts a file.
func (c *Ctx) File(name, syntax string) *FDP {
	f := &FDP{
		Name:    proto.String(c.PathPrefix + "/" + name + ".proto"),
		Package: proto.String(c.ProtoPrefix + "." + name),
		Options: &descriptorpb.FileOptions{GoPackage: proto.String(c.GoPrefix + "/" + name + ";" + name)},
	}
	if syntax == "proto3" {
		f.Syntax = proto.String("proto3")
	} else {
		f.Syntax = proto.String("proto2")
	}
	return f
}

// Pkg returns the proto package of a file of this context.
func (c *Ctx) Pkg(name string) string { return c.ProtoPrefix + "." + name }

// Label constants.
const (
	Opt = descriptorpb.FieldDescriptorProto_LABEL_OPTIONAL
	Req = descriptorpb.FieldDescriptorProto_LABEL_REQUIRED
	Rep = descriptorpb.FieldDescriptorProto_LABEL_REPEATED
)

// F builds a field.  typ is a scalar kind name, or ".full.Name" of a message, or "enum:.full.Name".
func F(name string, num int32, label descriptorpb.FieldDescriptorProto_Label, typ string) *FP {
	f := &FP{Name: proto.String(name), Number: proto.Int32(num), Label: label.Enum(), JsonName: proto.String(jsonName(name))}
	switch {
	case strings.HasPrefix(typ, "enum:"):
		f.Type = descriptorpb.FieldDescriptorProto_TYPE_ENUM.Enum()
		f.TypeName = proto.String(strings.TrimPrefix(typ, "enum:"))
	case strings.HasPrefix(typ, "."):
		f.Type = descriptorpb.FieldDescriptorProto_TYPE_MESSAGE.Enum()
		f.TypeName = proto.String(typ)
	default:
		t, ok := kindType[typ]
		if !ok {
			panic("schema: unknown kind " + typ)
		}
		f.Type = t.Enum()
	}
	return f
}

func jsonName(s string) string {
	var out []byte
	up := false
	for i := 0; i < len(s); i++ {
		c := s[i]
		if c == '_' {
			up = true
			continue
		}
		if up && c >= 'a' && c <= 'z' {
			c -= 32
		}
		up = false
		out = append(out, c)
	}
	return string(out)
}

// Packed sets [packed=v].
func Packed(f *FP, v bool) *FP {
	if f.Options == nil {
		f.Options = &descriptorpb.FieldOptions{}
	}
	f.Options.Packed = proto.Bool(v)
	return f
}

// P3Optional marks a proto3 optional field; the caller must add the synthetic oneof with AddP3Optional.
func AddP3Optional(m *DP, f *FP) {
	idx := int32(len(m.OneofDecl))
	m.OneofDecl = append(m.OneofDecl, &descriptorpb.OneofDescriptorProto{Name: proto.String("_" + f.GetName())})
	f.OneofIndex = proto.Int32(idx)
	f.Proto3Optional = proto.Bool(true)
	m.Field = append(m.Field, f)
}

// Msg builds a message.
func Msg(name string, fields ...*FP) *DP {
	return &DP{Name: proto.String(name), Field: fields}
}

// Oneof adds a real oneof with the given members to m.
func Oneof(m *DP, name string, members ...*FP) {
	idx := int32(len(m.OneofDecl))
	m.OneofDecl = append(m.OneofDecl, &descriptorpb.OneofDescriptorProto{Name: proto.String(name)})
	for _, f := range members {
		f.OneofIndex = proto.Int32(idx)
		f.Label = Opt.Enum()
		m.Field = append(m.Field, f)
	}
}

// MapField adds map<key,val> name = num to m (building the nested *Entry message).  parentFull is the
// full name (with leading dot) of m.
func MapField(m *DP, parentFull, name string, num int32, keyKind, valTyp string) {
	entry := camel(name) + "Entry"
	e := Msg(entry, F("key", 1, Opt, keyKind), F("value", 2, Opt, valTyp))
	e.Options = &descriptorpb.MessageOptions{MapEntry: proto.Bool(true)}
	m.NestedType = append(m.NestedType, e)
	m.Field = append(m.Field, F(name, num, Rep, parentFull+"."+entry))
}

func camel(s string) string {
	var out []byte
	up := true
	for i := 0; i < len(s); i++ {
		c := s[i]
		if c == '_' {
			up = true
			continue
		}
		if up && c >= 'a' && c <= 'z' {
			c -= 32
		}
		up = false
		out = append(out, c)
	}
	return string(out)
}

// Enum builds an enum with values name_0..n (first value 0).
func Enum(name string, values ...string) *descriptorpb.EnumDescriptorProto {
	e := &descriptorpb.EnumDescriptorProto{Name: proto.String(name)}
	for i, v := range values {
		e.Value = append(e.Value, &descriptorpb.EnumValueDescriptorProto{Name: proto.String(v), Number: proto.Int32(int32(i))})
	}
	return e
}

// ExtRange declares an extension range [lo, hi] on m.
func ExtRange(m *DP, lo, hi int32) {
	m.ExtensionRange = append(m.ExtensionRange, &descriptorpb.DescriptorProto_ExtensionRange{Start: proto.Int32(lo), End: proto.Int32(hi + 1)})
}

// Ext builds an extension field of extendee.
func Ext(name string, num int32, label descriptorpb.FieldDescriptorProto_Label, typ, extendee string) *FP {
	f := F(name, num, label, typ)
	f.Extendee = proto.String(extendee)
	return f
}

// Title upper-cases the first letter.
func Title(s string) string {
	if s == "" {
		return s
	}
	return strings.ToUpper(s[:1]) + s[1:]
}

// FullName is ".pkg.Name".
func FullName(pkg string, parts ...string) string {
	return "." + pkg + "." + strings.Join(parts, ".")
}

func sprintf(f string, a ...any) string { return fmt.Sprintf(f, a...) }
