// Package miniprotoc does what protoc does for a code-generator plug-in: it serialises a
// CodeGeneratorRequest, runs the plug-in binary as a subprocess, parses the CodeGeneratorResponse and
// enforces protoc's own rules (response error => failure, a file emitted twice => failure, proto3
// optional only for plug-ins that declare support).
package miniprotoc

import (
	"bytes"
	"fmt"
	"os"
	"os/exec"
	"sort"

	"google.golang.org/protobuf/proto"
	"google.golang.org/protobuf/types/descriptorpb"
	"google.golang.org/protobuf/types/pluginpb"
)

// Result of one plug-in run.
type Result struct {
	Files    map[string]string // name -> content
	Order    []string          // names in response order
	Err      string            // plug-in reported error / protocol violation ("" = ok)
	Features uint64
	Raw      []byte // the raw response (for determinism comparison)
}

// Run executes plugin on the request.  deps must be topologically ordered and end with the files to generate.
func Run(plugin string, param string, files []*descriptorpb.FileDescriptorProto, generate []string, dir string, env []string) (*Result, error) {
	req := &pluginpb.CodeGeneratorRequest{
		FileToGenerate:  generate,
		ProtoFile:       files,
		CompilerVersion: &pluginpb.Version{Major: proto.Int32(3), Minor: proto.Int32(21), Patch: proto.Int32(12)},
	}
	if param != "" {
		req.Parameter = proto.String(param)
	}
	in, err := proto.Marshal(req)
	if err != nil {
		return nil, err
	}
	cmd := exec.Command(plugin)
	cmd.Stdin = bytes.NewReader(in)
	var out, errb bytes.Buffer
	cmd.Stdout, cmd.Stderr = &out, &errb
	if dir != "" {
		cmd.Dir = dir
	}
	if env != nil {
		cmd.Env = append(os.Environ(), env...)
	}
	if err := cmd.Run(); err != nil {
		return &Result{Err: fmt.Sprintf("plug-in failed: %v: %s", err, errb.String())}, nil
	}
	var resp pluginpb.CodeGeneratorResponse
	if err := proto.Unmarshal(out.Bytes(), &resp); err != nil {
		return &Result{Err: fmt.Sprintf("unparseable response: %v", err)}, nil
	}
	res := &Result{Files: map[string]string{}, Features: resp.GetSupportedFeatures(), Raw: out.Bytes()}
	if resp.Error != nil {
		res.Err = "plug-in error: " + resp.GetError()
		return res, nil
	}
	for _, f := range resp.File {
		name := f.GetName()
		if name == "" || f.InsertionPoint != nil {
			res.Err = "response uses continuation/insertion points (not supported by this harness)"
			return res, nil
		}
		if _, dup := res.Files[name]; dup {
			res.Err = fmt.Sprintf("%s: Tried to write the same file twice.", name)
			return res, nil
		}
		res.Files[name] = f.GetContent()
		res.Order = append(res.Order, name)
	}
	// protoc: a file using proto3 optional requires the plug-in to declare support
	if res.Features&uint64(pluginpb.CodeGeneratorResponse_FEATURE_PROTO3_OPTIONAL) == 0 {
		gen := map[string]bool{}
		for _, g := range generate {
			gen[g] = true
		}
		for _, fd := range files {
			if gen[fd.GetName()] && usesProto3Optional(fd) {
				res.Err = fmt.Sprintf("%s: is a proto3 file that contains optional fields, but code generator hasn't been updated to support optional fields in proto3.", fd.GetName())
			}
		}
	}
	return res, nil
}

func usesProto3Optional(fd *descriptorpb.FileDescriptorProto) bool {
	var walk func(ms []*descriptorpb.DescriptorProto) bool
	walk = func(ms []*descriptorpb.DescriptorProto) bool {
		for _, m := range ms {
			for _, f := range m.Field {
				if f.GetProto3Optional() {
					return true
				}
			}
			if walk(m.NestedType) {
				return true
			}
		}
		return false
	}
	return walk(fd.MessageType)
}

// SortedNames returns the file names of a result, sorted.
func (r *Result) SortedNames() []string {
	out := append([]string{}, r.Order...)
	sort.Strings(out)
	return out
}
