// Package wiregen holds the rapid generators and deterministic boundary sets shared by the checks.
// Every random choice is drawn from rapid.
package wiregen

import (
	"math"

	"pgregory.net/rapid"

	"verif/harness/internal/refwire"
)

// BoundaryU64 is every bit-length class k=0..64 with {2^k-1, 2^k, 2^k+1}, in both signs.
func BoundaryU64() []uint64 {
	seen := map[uint64]bool{}
	var out []uint64
	add := func(v uint64) {
		if !seen[v] {
			seen[v] = true
			out = append(out, v)
		}
	}
	add(0)
	for k := uint(0); k < 64; k++ {
		p := uint64(1) << k
		for _, v := range []uint64{p - 1, p, p + 1} {
			add(v)
			add(-v)
			add(^v)
		}
	}
	add(math.MaxUint64)
	add(math.MaxInt64)
	add(1 << 63)
	add(math.MaxUint32)
	add(math.MaxInt32)
	add(0xffffffff80000000)
	add(uint64(uint32(1) << 31))
	return out
}

// FloatBits32 are interesting float32 bit patterns.
func FloatBits32() []uint64 {
	return []uint64{0, 0x80000000, 0x7f800000, 0xff800000, 0x00000001, 0x007fffff, 0x00800000, 0x7f7fffff,
		0x7fc00000, 0x7fc00001, 0x7f800001, 0xffc12345, 0x3f800000, 0xbf800000, 0x7fffffff, 0xffffffff}
}

// FloatBits64 are interesting float64 bit patterns.
func FloatBits64() []uint64 {
	return []uint64{0, 0x8000000000000000, 0x7ff0000000000000, 0xfff0000000000000, 1, 0x000fffffffffffff,
		0x0010000000000000, 0x7fefffffffffffff, 0x7ff8000000000000, 0x7ff8000000000001, 0x7ff0000000000001,
		0xfff8123456789abc, 0x3ff0000000000000, 0xbff0000000000000, 0x7fffffffffffffff, 0xffffffffffffffff}
}

// FieldNumbers are the key-size boundaries.
func FieldNumbers() []int {
	return []int{1, 2, 15, 16, 2047, 2048, 1<<18 - 1, 1 << 18, 1<<25 - 1, 1 << 25, 1<<26 - 1, 1 << 26, 1 << 28, 1<<29 - 1}
}

// FieldNumber draws a field number: boundaries or log-uniform over [1, 2^29-1].
func FieldNumber() *rapid.Generator[int] {
	fn := FieldNumbers()
	return rapid.Custom(func(t *rapid.T) int {
		switch rapid.IntRange(0, 3).Draw(t, "numclass") {
		case 0:
			return rapid.SampledFrom(fn).Draw(t, "numb")
		case 1:
			return rapid.IntRange(1, 15).Draw(t, "numsmall")
		default:
			bits := rapid.IntRange(1, 29).Draw(t, "numbits")
			lo := 1 << (bits - 1)
			hi := 1<<bits - 1
			return rapid.IntRange(lo, hi).Draw(t, "num")
		}
	})
}

// U64 draws a 64-bit pattern biased to boundaries.
func U64() *rapid.Generator[uint64] {
	b := BoundaryU64()
	return rapid.Custom(func(t *rapid.T) uint64 {
		switch rapid.IntRange(0, 3).Draw(t, "vclass") {
		case 0:
			return rapid.SampledFrom(b).Draw(t, "vb")
		case 1:
			bits := rapid.IntRange(0, 64).Draw(t, "vbits")
			if bits == 0 {
				return 0
			}
			v := rapid.Uint64().Draw(t, "vraw")
			if bits < 64 {
				v &= (1<<uint(bits) - 1)
				v |= 1 << uint(bits-1)
			}
			if rapid.Bool().Draw(t, "neg") {
				v = -v
			}
			return v
		default:
			return rapid.Uint64().Draw(t, "v")
		}
	})
}

// LenBoundaries are payload lengths at varint-length boundaries.
var LenBoundaries = []int{0, 1, 2, 127, 128, 129, 16383, 16384}

// Bytes draws a byte string; lengths cluster at varint-length boundaries; big enables 2^21.
func Bytes(big bool) *rapid.Generator[[]byte] {
	return rapid.Custom(func(t *rapid.T) []byte {
		var n int
		switch rapid.IntRange(0, 5).Draw(t, "lclass") {
		case 0:
			n = rapid.SampledFrom(LenBoundaries).Draw(t, "lb")
		case 1:
			if big {
				n = rapid.SampledFrom([]int{1<<21 - 1, 1 << 21}).Draw(t, "lbig")
			} else {
				n = rapid.IntRange(0, 300).Draw(t, "lmid")
			}
		default:
			n = rapid.IntRange(0, 40).Draw(t, "l")
		}
		if n <= 64 {
			return rapid.SliceOfN(rapid.Byte(), n, n).Draw(t, "bytes")
		}
		// long payloads: a drawn short pattern repeated (keeps shrinking cheap)
		pat := rapid.SliceOfN(rapid.Byte(), 1, 8).Draw(t, "pat")
		out := make([]byte, n)
		for i := range out {
			out[i] = pat[i%len(pat)] + byte(i/len(pat))
		}
		return out
	})
}

// UTF8 draws a valid UTF-8 string as bytes.
func UTF8() *rapid.Generator[[]byte] {
	return rapid.Custom(func(t *rapid.T) []byte {
		switch rapid.IntRange(0, 4).Draw(t, "sclass") {
		case 0:
			n := rapid.SampledFrom([]int{0, 1, 127, 128, 129, 16383, 16384}).Draw(t, "sl")
			out := make([]byte, n)
			c := rapid.ByteRange('a', 'z').Draw(t, "c")
			for i := range out {
				out[i] = c
			}
			return out
		default:
			return []byte(rapid.StringN(0, 24, 64).Draw(t, "s"))
		}
	})
}

// WField is one schema-free wire field.
type WField struct {
	Num     int      `json:"num"`
	WT      int      `json:"wt"`
	Varint  uint64   `json:"varint,omitempty"`
	Fixed   uint64   `json:"fixed,omitempty"`
	Payload []byte   `json:"payload,omitempty"` // raw payload for WT 2 when Nested == nil
	Nested  []WField `json:"nested,omitempty"`
	IsMsg   bool     `json:"is_msg,omitempty"` // payload is the encoding of Nested (possibly empty)
}

// Encode appends the canonical encoding of a field sequence.
func Encode(dst []byte, fs []WField) []byte {
	for _, f := range fs {
		dst = refwire.AppendKey(dst, f.Num, f.WT)
		switch f.WT {
		case refwire.WTVarint:
			dst = refwire.AppendVarint(dst, f.Varint)
		case refwire.WTFixed64:
			dst = refwire.AppendFixed64(dst, f.Fixed)
		case refwire.WTFixed32:
			dst = refwire.AppendFixed32(dst, uint32(f.Fixed))
		case refwire.WTLen:
			if f.IsMsg {
				dst = refwire.AppendLen(dst, Encode(nil, f.Nested))
			} else {
				dst = refwire.AppendLen(dst, f.Payload)
			}
		}
	}
	return dst
}

// Fields draws a schema-free field sequence (depth-limited).
func Fields(depth, maxFields int) *rapid.Generator[[]WField] {
	return rapid.Custom(func(t *rapid.T) []WField {
		n := rapid.IntRange(0, maxFields).Draw(t, "nfields")
		out := make([]WField, 0, n)
		for i := 0; i < n; i++ {
			f := WField{Num: FieldNumber().Draw(t, "num")}
			switch rapid.IntRange(0, 5).Draw(t, "wtc") {
			case 0, 1:
				f.WT = refwire.WTVarint
				f.Varint = U64().Draw(t, "varint")
			case 2:
				f.WT = refwire.WTFixed64
				f.Fixed = U64().Draw(t, "f64")
			case 3:
				f.WT = refwire.WTFixed32
				f.Fixed = uint64(uint32(U64().Draw(t, "f32")))
			default:
				f.WT = refwire.WTLen
				if depth > 0 && rapid.IntRange(0, 2).Draw(t, "nest") == 0 {
					f.IsMsg = true
					f.Nested = Fields(depth-1, 4).Draw(t, "nested")
				} else {
					f.Payload = Bytes(false).Draw(t, "payload")
				}
			}
			out = append(out, f)
		}
		return out
	})
}
