// Package ev collects what a check run actually covered (evaluations, distinct non-trivial cases,
// class counters, samples), matches failures against the committed known-findings file, writes
// replay files for new failures, and writes the evidence part file that ./check merges.
package ev

import (
	"encoding/binary"
	"encoding/json"
	"fmt"
	"hash/fnv"
	"os"
	"path/filepath"
	"regexp"
	"sort"
	"strconv"
	"strings"
	"sync"
	"time"
)

// Env is the contract between ./check (python driver) and the test binaries.
const (
	EnvPart      = "VERIF_EVIDENCE_PART" // path prefix for <prefix>.json and <prefix>.fp
	EnvReplayDir = "VERIF_REPLAY_DIR"    // where failing cases are written
	EnvKnown     = "VERIF_KNOWN"         // path of known_findings.jsonl
	EnvTier      = "VERIF_TIER"          // quick | thorough
	EnvSeed      = "VERIF_SEED"
	EnvShard     = "VERIF_SHARD"  // i
	EnvShards    = "VERIF_SHARDS" // n
	EnvReplay    = "VERIF_REPLAY" // path of a replay file (TestReplay)
	EnvScale     = "VERIF_SCALE"  // float multiplier on case counts (development)
)

// Tier returns "quick" or "thorough".
func Tier() string {
	if os.Getenv(EnvTier) == "thorough" {
		return "thorough"
	}
	return "quick"
}

// Thorough reports whether the thorough tier is selected.
func Thorough() bool { return Tier() == "thorough" }

// Seed returns VERIF_SEED (0 remapped to 1).
func Seed() uint64 {
	s, _ := strconv.ParseUint(os.Getenv(EnvSeed), 10, 64)
	if s == 0 {
		s = 1
	}
	return s
}

// Shard returns (i, n).
func Shard() (int, int) {
	i, _ := strconv.Atoi(os.Getenv(EnvShard))
	n, _ := strconv.Atoi(os.Getenv(EnvShards))
	if n <= 0 {
		n = 1
	}
	if i < 0 || i >= n {
		i = 0
	}
	return i, n
}

// N picks a case count by tier, scaled by VERIF_SCALE and divided over the shards.
func N(quick, thorough int) int {
	n := quick
	if Thorough() {
		n = thorough
	}
	if s, err := strconv.ParseFloat(os.Getenv(EnvScale), 64); err == nil && s > 0 {
		n = int(float64(n) * s)
	}
	_, sh := Shard()
	n = (n + sh - 1) / sh
	if n < 1 {
		n = 1
	}
	return n
}

// Known is one line of known_findings.jsonl with status "known".
type Known struct {
	Status    string `json:"status"` // "known" | "fixed"
	Property  string `json:"property"`
	Signature string `json:"signature"` // exact signature or a regexp when SigRegexp is true
	SigRegexp bool   `json:"sig_regexp,omitempty"`
	What      string `json:"what"`
	Replay    string `json:"replay,omitempty"`
	Commit    string `json:"commit,omitempty"`
	// Exclude lists generator shapes that are steered away from this finding by construction so that the
	// search continues behind it (the excluded cases are counted in the evidence)
	Exclude []string `json:"exclude,omitempty"`
	re      *regexp.Regexp
}

// LoadKnown reads the known-findings file (missing file = none).
func LoadKnown() []Known {
	p := os.Getenv(EnvKnown)
	if p == "" {
		return nil
	}
	data, err := os.ReadFile(p)
	if err != nil {
		return nil
	}
	var out []Known
	for _, ln := range strings.Split(string(data), "\n") {
		ln = strings.TrimSpace(ln)
		if ln == "" || strings.HasPrefix(ln, "#") {
			continue
		}
		var k Known
		if err := json.Unmarshal([]byte(ln), &k); err != nil {
			panic(fmt.Sprintf("known_findings.jsonl: %v in %q", err, ln))
		}
		if k.Status != "known" {
			continue // "fixed" entries suppress nothing
		}
		if k.SigRegexp {
			k.re = regexp.MustCompile("^(?:" + k.Signature + ")$")
		}
		out = append(out, k)
	}
	return out
}

// Failure is what an oracle returns when the property does not hold on a case.
type Failure struct {
	Sig    string // <property>/<kind>/<feature or call site>
	Detail string
}

func (f *Failure) Error() string { return f.Sig + ": " + f.Detail }

// Failf builds a Failure.
func Failf(sig string, format string, a ...any) *Failure {
	// signatures travel through whitespace-delimited protocol lines (VIOLATION-CANDIDATE, REPLAY-FAILS)
	return &Failure{Sig: strings.Join(strings.Fields(sig), "-"), Detail: fmt.Sprintf(format, a...)}
}

// Recorder accumulates coverage of one property in one process.
type Recorder struct {
	Property string
	Rule     string

	mu           sync.Mutex
	evals        int64
	fps          map[uint64]struct{}
	enumDist     int64
	classes      map[string]int64
	samples      []any
	sampleKeys   map[string]bool
	known        []Known
	knownHits    map[string]int64
	excluded     map[string]int64
	extra        map[string]any
	assumptions  []string
	violations   []string
	start        time.Time
	maxSamples   int
	survey       map[string]int
	surveyDetail map[string]string
}

// SurveyReport lists the signatures collected in survey mode.
func (r *Recorder) SurveyReport() string {
	r.mu.Lock()
	defer r.mu.Unlock()
	keys := make([]string, 0, len(r.survey))
	for k := range r.survey {
		keys = append(keys, k)
	}
	sort.Strings(keys)
	var sb strings.Builder
	for _, k := range keys {
		d := r.surveyDetail[k]
		if len(d) > 260 {
			d = d[:260]
		}
		fmt.Fprintf(&sb, "SURVEY %6d %s :: %s\n", r.survey[k], k, strings.ReplaceAll(d, "\n", " "))
	}
	return sb.String()
}

// New creates a recorder.
func New(property, rule string) *Recorder {
	r := &Recorder{Property: property, Rule: rule, fps: map[uint64]struct{}{}, classes: map[string]int64{},
		sampleKeys: map[string]bool{}, knownHits: map[string]int64{}, excluded: map[string]int64{}, extra: map[string]any{},
		start: time.Now(), maxSamples: 40}
	for _, k := range LoadKnown() {
		if k.Property == property {
			r.known = append(r.known, k)
		}
	}
	return r
}

// Eval counts n oracle executions.
func (r *Recorder) Eval(n int64) { r.mu.Lock(); r.evals += n; r.mu.Unlock() }

// NonTrivial records the fingerprint of a non-trivial case.
func (r *Recorder) NonTrivial(fp uint64) { r.mu.Lock(); r.fps[fp] = struct{}{}; r.mu.Unlock() }

// NonTrivialEnum counts n cases that are distinct by construction (exhaustive enumeration) and
// are therefore not fingerprinted.
func (r *Recorder) NonTrivialEnum(n int64) { r.mu.Lock(); r.enumDist += n; r.mu.Unlock() }

// Class bumps a class counter.
func (r *Recorder) Class(name string) { r.mu.Lock(); r.classes[name]++; r.mu.Unlock() }

// ClassN bumps a class counter by n.
func (r *Recorder) ClassN(name string, n int64) { r.mu.Lock(); r.classes[name] += n; r.mu.Unlock() }

// Excluded counts a case steered away from a known finding.
func (r *Recorder) Excluded(sig string) { r.mu.Lock(); r.excluded[sig]++; r.mu.Unlock() }

// Excluding reports whether a listed known finding of this property asks generators to avoid the shape.
func (r *Recorder) Excluding(token string) bool {
	for i := range r.known {
		for _, e := range r.known[i].Exclude {
			if e == token {
				return true
			}
		}
	}
	return false
}

// Extra sets a free-form coverage key.
func (r *Recorder) Extra(k string, v any) { r.mu.Lock(); r.extra[k] = v; r.mu.Unlock() }

// Assume records an assumption for the evidence file.
func (r *Recorder) Assume(s string) {
	r.mu.Lock()
	r.assumptions = append(r.assumptions, s)
	r.mu.Unlock()
}

// Sample keeps up to 8 samples, one per key (class), first come.
func (r *Recorder) Sample(key string, v any) {
	r.mu.Lock()
	defer r.mu.Unlock()
	if len(r.samples) >= r.maxSamples || r.sampleKeys[key] {
		return
	}
	r.sampleKeys[key] = true
	r.samples = append(r.samples, map[string]any{"class": key, "case": v})
}

// FP hashes parts into a 64-bit fingerprint.
func FP(parts ...any) uint64 {
	h := fnv.New64a()
	for _, p := range parts {
		switch v := p.(type) {
		case []byte:
			var l [8]byte
			binary.LittleEndian.PutUint64(l[:], uint64(len(v)))
			h.Write(l[:])
			h.Write(v)
		case string:
			var l [8]byte
			binary.LittleEndian.PutUint64(l[:], uint64(len(v)))
			h.Write(l[:])
			h.Write([]byte(v))
		default:
			fmt.Fprintf(h, "|%v|", v)
		}
	}
	return h.Sum64()
}

// KnownMatch returns the known finding matching sig, if any.
func (r *Recorder) KnownMatch(sig string) *Known {
	for i := range r.known {
		k := &r.known[i]
		if k.re != nil {
			if k.re.MatchString(sig) {
				return k
			}
		} else if k.Signature == sig {
			return k
		}
	}
	return nil
}

// TB is the subset of testing.TB / rapid.T used here.
type TB interface {
	Fatalf(format string, args ...any)
	Logf(format string, args ...any)
}

// Replay is the on-disk form of a failing (or any) case.
type Replay struct {
	Property  string          `json:"property"`
	Signature string          `json:"signature"`
	Detail    string          `json:"detail"`
	Test      string          `json:"test"` // which oracle (sub-check) the case belongs to
	Case      json.RawMessage `json:"case"`
}

// Check applies the findings protocol to an oracle result.  A nil failure passes.  A failure
// whose signature is listed in known_findings.jsonl is counted and passes (the check continues
// behind it).  Any other failure writes the replay file and fails the (rapid) test, so shrinking
// keeps overwriting the file with smaller cases of the same signature.
func (r *Recorder) Check(t TB, test string, c any, f *Failure) bool {
	if f == nil {
		return true
	}
	if k := r.KnownMatch(f.Sig); k != nil {
		r.mu.Lock()
		r.knownHits[f.Sig]++
		r.mu.Unlock()
		return false
	}
	if os.Getenv("VERIF_SURVEY") != "" {
		// development aid: collect every failing signature instead of stopping at the first
		r.mu.Lock()
		if r.survey == nil {
			r.survey = map[string]int{}
			r.surveyDetail = map[string]string{}
		}
		if r.survey[f.Sig] == 0 {
			r.surveyDetail[f.Sig] = f.Detail
			r.mu.Unlock()
			r.WriteReplay(test, c, f)
			r.mu.Lock()
		}
		r.survey[f.Sig]++
		r.mu.Unlock()
		return false
	}
	path := r.WriteReplay(test, c, f)
	r.mu.Lock()
	seen := false
	for _, v := range r.violations {
		if v == path {
			seen = true
		}
	}
	if !seen {
		r.violations = append(r.violations, path)
	}
	r.mu.Unlock()
	fmt.Printf("VIOLATION-CANDIDATE property=%s sig=%s replay=%s\n", r.Property, f.Sig, path)
	t.Fatalf("%s: %s", f.Sig, f.Detail)
	return false
}

// WriteReplay saves a case.
func (r *Recorder) WriteReplay(test string, c any, f *Failure) string {
	dir := os.Getenv(EnvReplayDir)
	if dir == "" {
		dir = os.TempDir()
	}
	_ = os.MkdirAll(dir, 0o755)
	cj, err := json.Marshal(c)
	if err != nil {
		cj, _ = json.Marshal(fmt.Sprintf("%+v", c))
	}
	rp := Replay{Property: r.Property, Signature: f.Sig, Detail: f.Detail, Test: test, Case: cj}
	data, _ := json.MarshalIndent(rp, "", " ")
	name := fmt.Sprintf("%s-%016x.json", r.Property, FP(f.Sig))
	path := filepath.Join(dir, name)
	_ = os.WriteFile(path, data, 0o644)
	return path
}

// LoadReplay reads the file named by VERIF_REPLAY.
func LoadReplay() (*Replay, error) {
	p := os.Getenv(EnvReplay)
	if p == "" {
		return nil, nil
	}
	data, err := os.ReadFile(p)
	if err != nil {
		return nil, err
	}
	var rp Replay
	if err := json.Unmarshal(data, &rp); err != nil {
		return nil, err
	}
	return &rp, nil
}

// Write emits the evidence part (<prefix>.json and <prefix>.fp).  Safe to call more than once.
func (r *Recorder) Write() {
	prefix := os.Getenv(EnvPart)
	if prefix == "" {
		return
	}
	r.mu.Lock()
	defer r.mu.Unlock()
	shard, shards := Shard()
	part := map[string]any{
		"property_id":   r.Property,
		"tier":          Tier(),
		"seed":          Seed(),
		"shard":         shard,
		"shards":        shards,
		"evaluations":   r.evals,
		"fingerprinted": len(r.fps),
		"enum_distinct": r.enumDist,
		"rule":          r.Rule,
		"classes":       r.classes,
		"samples":       r.samples,
		"known_hits":    r.knownHits,
		"excluded":      r.excluded,
		"extra":         r.extra,
		"assumptions":   r.assumptions,
		"violations":    r.violations,
		"wall_s":        time.Since(r.start).Seconds(),
	}
	data, _ := json.Marshal(part)
	_ = os.WriteFile(prefix+".json", data, 0o644)
	keys := make([]uint64, 0, len(r.fps))
	for k := range r.fps {
		keys = append(keys, k)
	}
	sort.Slice(keys, func(i, j int) bool { return keys[i] < keys[j] })
	buf := make([]byte, 8*len(keys))
	for i, k := range keys {
		binary.LittleEndian.PutUint64(buf[8*i:], k)
	}
	_ = os.WriteFile(prefix+".fp", buf, 0o644)
}

// Summary returns a short dump used by tests for logging.
func (r *Recorder) Summary() string {
	r.mu.Lock()
	defer r.mu.Unlock()
	keys := make([]string, 0, len(r.classes))
	for k := range r.classes {
		keys = append(keys, k)
	}
	sort.Strings(keys)
	var sb strings.Builder
	fmt.Fprintf(&sb, "%s: evals=%d distinct_nontrivial=%d(+%d enumerated) known_hits=%v excluded=%v\n", r.Property, r.evals, len(r.fps), r.enumDist, r.knownHits, r.excluded)
	for _, k := range keys {
		fmt.Fprintf(&sb, "  %-40s %d\n", k, r.classes[k])
	}
	return sb.String()
}

// RunReplay implements TestReplay for an engine: it loads $VERIF_REPLAY and runs it through the
// plain oracle dispatch (no rapid), printing the markers ./check looks for.
func RunReplay(t interface {
	Skip(args ...any)
	Fatalf(format string, args ...any)
	Fail()
}, dispatch func(*Replay) *Failure) {
	rp, err := LoadReplay()
	if err != nil {
		t.Fatalf("replay: %v", err)
	}
	if rp == nil {
		t.Skip("VERIF_REPLAY not set")
		return
	}
	fmt.Printf("REPLAY-START property=%s test=%s\n", rp.Property, rp.Test)
	if f := dispatch(rp); f != nil {
		fmt.Printf("REPLAY-FAILS property=%s sig=%s\n  detail: %s\n", rp.Property, f.Sig, f.Detail)
		t.Fail()
		return
	}
	fmt.Printf("REPLAY-PASSES property=%s\n", rp.Property)
}

// Journal records the case that is about to run so that ./check can replay it in a fresh process
// if this process dies un-recoverably (fatal error: out of memory, stack exhaustion).
func (r *Recorder) Journal(test string, c any) {
	prefix := os.Getenv(EnvPart)
	if prefix == "" {
		return
	}
	cj, err := json.Marshal(c)
	if err != nil {
		return
	}
	rp := Replay{Property: r.Property, Signature: r.Property + "/process-died", Detail: "journaled case (the process died while running it)", Test: test, Case: cj}
	data, _ := json.Marshal(rp)
	_ = os.WriteFile(prefix+".journal", data, 0o644)
}

// JournalClear removes the journal after a clean finish.
func (r *Recorder) JournalClear() {
	if prefix := os.Getenv(EnvPart); prefix != "" {
		_ = os.Remove(prefix + ".journal")
	}
}
