package ev

import (
	"flag"
	"strconv"
	"testing"

	"pgregory.net/rapid"
)

// DerivedSeed mixes VERIF_SEED, the shard index and a per-call salt into a non-zero rapid seed.
func DerivedSeed(salt uint64) uint64 {
	i, _ := Shard()
	s := Seed()*1000003 + uint64(i)*7919 + salt*104729
	if s == 0 {
		s = 1
	}
	return s
}

// Rapid runs prop for exactly n generated cases with a seed derived from VERIF_SEED, without
// fail files (replay files are written by Recorder.Check instead).
func Rapid(t *testing.T, n int, salt uint64, prop func(*rapid.T)) {
	t.Helper()
	must(flag.Set("rapid.checks", strconv.Itoa(n)))
	must(flag.Set("rapid.seed", strconv.FormatUint(DerivedSeed(salt), 10)))
	must(flag.Set("rapid.nofailfile", "true"))
	if flag.Lookup("rapid.shrinktime") != nil && !shrinkSet {
		must(flag.Set("rapid.shrinktime", "20s"))
	}
	rapid.Check(t, prop)
}

var shrinkSet bool

func must(err error) {
	if err != nil {
		panic(err)
	}
}
