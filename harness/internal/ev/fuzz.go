package ev

import (
	"fmt"
	"sync"
	"testing"
)

var (
	fuzzOnce  sync.Once
	fuzzKnown map[string][]Known
)

// FuzzCheck is Recorder.Check for native fuzz targets (which run in worker processes without a
// recorder): a failure listed in known_findings.jsonl is skipped, any other one writes the replay file,
// prints the candidate line and fails the target so that the coordinator stops and keeps the input.
func FuzzCheck(t *testing.T, property, test string, c any, f *Failure) {
	if f == nil {
		return
	}
	fuzzOnce.Do(func() {
		fuzzKnown = map[string][]Known{}
		for _, k := range LoadKnown() {
			fuzzKnown[k.Property] = append(fuzzKnown[k.Property], k)
		}
	})
	for i := range fuzzKnown[property] {
		k := &fuzzKnown[property][i]
		if (k.re != nil && k.re.MatchString(f.Sig)) || k.Signature == f.Sig {
			t.Skip("known finding")
		}
	}
	r := &Recorder{Property: property}
	path := r.WriteReplay(test, c, f)
	fmt.Printf("VIOLATION-CANDIDATE property=%s sig=%s replay=%s\n", property, f.Sig, path)
	t.Fatalf("%s: %s", f.Sig, f.Detail)
}
