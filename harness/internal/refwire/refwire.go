// Package refwire is a small reference implementation of the protobuf wire format written for the
// checks directly from the encoding specification.  It never calls csproto.  It is deliberately the
// lenient, spec-level reader: varints up to 10 bytes, bits above 64 discarded, non-minimal encodings
// accepted, so that it can say what "the item at the cursor" is for arbitrary bytes.
package refwire

import (
	"errors"
	"math"
)

// Wire types.
const (
	WTVarint  = 0
	WTFixed64 = 1
	WTLen     = 2
	WTSGroup  = 3
	WTEGroup  = 4
	WTFixed32 = 5
)

var (
	ErrTruncated = errors.New("refwire: truncated")
	ErrOverflow  = errors.New("refwire: varint longer than 10 bytes")
	ErrBadWT     = errors.New("refwire: unsupported wire type")
	ErrBadNum    = errors.New("refwire: field number out of range")
)

// MaxFieldNumber is 2^29-1.
const MaxFieldNumber = 1<<29 - 1

// AppendVarint appends the minimal base-128 encoding of v.
func AppendVarint(b []byte, v uint64) []byte {
	for v >= 0x80 {
		b = append(b, byte(v)|0x80)
		v >>= 7
	}
	return append(b, byte(v))
}

// SizeVarint is the length of the minimal encoding of v, computed by the loop (no closed form).
func SizeVarint(v uint64) int {
	n := 1
	for v >= 0x80 {
		v >>= 7
		n++
	}
	return n
}

// Varint reads a varint of at most 10 bytes.  Bits above 2^64 are discarded (as every mainstream
// parser does).  n is the number of bytes consumed.
func Varint(b []byte) (v uint64, n int, err error) {
	for i := 0; i < 10; i++ {
		if i >= len(b) {
			return 0, 0, ErrTruncated
		}
		c := b[i]
		if i < 9 {
			v |= uint64(c&0x7f) << (7 * uint(i))
		} else {
			v |= uint64(c&0x01) << 63
		}
		if c < 0x80 {
			return v, i + 1, nil
		}
	}
	return 0, 0, ErrOverflow
}

// ZigZag32/64 encode per the spec formulas.
func ZigZag32(v int32) uint64 { return uint64(uint32(v<<1) ^ uint32(v>>31)) }
func ZigZag64(v int64) uint64 { return uint64(v<<1) ^ uint64(v>>63) }

// UnZigZag64 decodes.
func UnZigZag64(u uint64) int64 {
	if u&1 == 0 {
		return int64(u >> 1)
	}
	return ^int64(u >> 1)
}

// UnZigZag32 decodes the low 32 bits.
func UnZigZag32(u uint64) int32 {
	x := uint32(u)
	if x&1 == 0 {
		return int32(x >> 1)
	}
	return ^int32(x >> 1)
}

// AppendFixed32 / AppendFixed64 are little endian.
func AppendFixed32(b []byte, v uint32) []byte {
	return append(b, byte(v), byte(v>>8), byte(v>>16), byte(v>>24))
}
func AppendFixed64(b []byte, v uint64) []byte {
	return append(b, byte(v), byte(v>>8), byte(v>>16), byte(v>>24), byte(v>>32), byte(v>>40), byte(v>>48), byte(v>>56))
}

func Fixed32(b []byte) (uint32, error) {
	if len(b) < 4 {
		return 0, ErrTruncated
	}
	return uint32(b[0]) | uint32(b[1])<<8 | uint32(b[2])<<16 | uint32(b[3])<<24, nil
}
func Fixed64(b []byte) (uint64, error) {
	if len(b) < 8 {
		return 0, ErrTruncated
	}
	var v uint64
	for i := 0; i < 8; i++ {
		v |= uint64(b[i]) << (8 * uint(i))
	}
	return v, nil
}

// AppendKey appends number<<3|wt.
func AppendKey(b []byte, num int, wt int) []byte {
	return AppendVarint(b, uint64(num)<<3|uint64(wt))
}

// SizeKey is the encoded key length.
func SizeKey(num int) int { return SizeVarint(uint64(num) << 3) }

// AppendLen appends a length-delimited payload (no key).
func AppendLen(b []byte, p []byte) []byte {
	b = AppendVarint(b, uint64(len(p)))
	return append(b, p...)
}

// Field describes one field found by Walk: b[KeyStart:PayloadStart] is the key (plus the length
// prefix for length-delimited fields), b[PayloadStart:End] the payload.
type Field struct {
	Num          int
	WT           int
	KeyStart     int
	ValStart     int // first byte after the key
	PayloadStart int // for WTLen: first byte after the length prefix; otherwise == ValStart
	End          int
	Varint       uint64 // value for WTVarint
}

// Next parses the field that starts at off.
func Next(b []byte, off int) (Field, error) {
	var f Field
	f.KeyStart = off
	k, n, err := Varint(b[off:])
	if err != nil {
		return f, err
	}
	num := k >> 3
	if num < 1 || num > MaxFieldNumber {
		return f, ErrBadNum
	}
	f.Num, f.WT = int(num), int(k&7)
	f.ValStart = off + n
	f.PayloadStart = f.ValStart
	switch f.WT {
	case WTVarint:
		v, m, err := Varint(b[f.ValStart:])
		if err != nil {
			return f, err
		}
		f.Varint = v
		f.End = f.ValStart + m
	case WTFixed64:
		if len(b)-f.ValStart < 8 {
			return f, ErrTruncated
		}
		f.End = f.ValStart + 8
	case WTFixed32:
		if len(b)-f.ValStart < 4 {
			return f, ErrTruncated
		}
		f.End = f.ValStart + 4
	case WTLen:
		l, m, err := Varint(b[f.ValStart:])
		if err != nil {
			return f, err
		}
		f.PayloadStart = f.ValStart + m
		if l > uint64(len(b)-f.PayloadStart) {
			return f, ErrTruncated
		}
		f.End = f.PayloadStart + int(l)
	default:
		return f, ErrBadWT
	}
	return f, nil
}

// Walk parses a whole buffer as a sequence of fields (groups unsupported).
func Walk(b []byte) ([]Field, error) {
	var out []Field
	off := 0
	for off < len(b) {
		f, err := Next(b, off)
		if err != nil {
			return out, err
		}
		out = append(out, f)
		off = f.End
	}
	return out, nil
}

// Float helpers by bit pattern.
func F32bits(f float32) uint32 { return math.Float32bits(f) }
func F64bits(f float64) uint64 { return math.Float64bits(f) }
