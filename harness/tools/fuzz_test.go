package tools

import (
	"bytes"
	"encoding/hex"
	"strings"
	"testing"
	"unicode"

	"github.com/CrowdStrike/csproto/prototest"

	"verif/harness/internal/ev"
)

// refParseHex is an independent re-implementation of the documented per-line contract.
func refParseHex(x string) ([]byte, bool) {
	var out []byte
	for _, line := range strings.Split(x, "\n") {
		if i := strings.IndexByte(line, ';'); i >= 0 {
			line = line[:i]
		}
		var digits []rune
		for _, r := range line {
			if !unicode.IsSpace(r) {
				digits = append(digits, r)
			}
		}
		b, err := hex.DecodeString(string(digits))
		if err != nil {
			return nil, false
		}
		out = append(out, b...)
	}
	return out, true
}

// FuzzC20Hex: arbitrary text through ParseAnnotatedHex against the documented contract.
func FuzzC20Hex(f *testing.F) {
	f.Add("08 64 ; tag\n  A2 06 ; x;y\n")
	f.Add("0\t8\r\n;only comment\n12")
	f.Add("zz")
	f.Fuzz(func(t *testing.T, text string) {
		var fl *ev.Failure
		func() {
			defer func() {
				if r := recover(); r != nil {
					fl = ev.Failf("C20/hex-panic", "panic: %v", r)
				}
			}()
			got, err := prototest.ParseAnnotatedHex(text)
			want, ok := refParseHex(text)
			switch {
			case ok && err != nil:
				fl = ev.Failf("C20/hex-rejects-valid", "ParseAnnotatedHex(%q): %v", text, err)
			case !ok && err == nil:
				fl = ev.Failf("C20/hex-accepts-garbage", "ParseAnnotatedHex(%q) = %x without an error", text, got)
			case ok && !bytes.Equal(got, want):
				fl = ev.Failf("C20/hex-wrong-bytes", "ParseAnnotatedHex(%q) = %x, want %x", text, got, want)
			}
		}()
		ev.FuzzCheck(t, "C20", "hex", &HexCase{Text: text}, fl)
	})
}

// FuzzC20Dump: arbitrary bytes through dumpProto with a fixed set of paths.
func FuzzC20Dump(f *testing.F) {
	f.Add([]byte{0x08, 0x01, 0x12, 0x02, 0x08, 0x05, 0x1a, 0x03, 0x61, 0x62, 0x63})
	f.Add([]byte{0x12, 0xff, 0xff, 0xff, 0xff, 0x0f})
	f.Add([]byte{0x0b, 0x0c})
	f.Fuzz(func(t *testing.T, data []byte) {
		c := &DumpCase{In: append([]byte{}, data...), Expand: []string{"2", "2.2", "4"}, Strings: []string{"3", "2.3"}}
		sanitizeStrings(c)
		r := oracleDumpInProc(c)
		if r.unparseable != nil {
			t.Skip("reader cannot parse (labels changed?)")
		}
		ev.FuzzCheck(t, "C20", "dump", c, r.f)
	})
}
