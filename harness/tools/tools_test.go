package tools

import (
	"bytes"
	"encoding/hex"
	"encoding/json"
	"fmt"
	"os"
	"os/exec"
	"regexp"
	"strconv"
	"strings"
	"testing"

	"github.com/CrowdStrike/csproto/prototest"
	"pgregory.net/rapid"

	"verif/harness/internal/ev"
	"verif/harness/internal/refwire"
	"verif/harness/internal/wiregen"
	"verif/harness/tools/protodumpsrc"
)

// ---------------- annotated hex ----------------

// HexCase is an annotated-hex text together with the bytes it denotes.
type HexCase struct {
	Text    string `json:"text"`
	Want    []byte `json:"want"`
	Corrupt bool   `json:"corrupt"`        // the text contains one non-hex, non-space character outside comments
	Bulk    string `json:"bulk,omitempty"` // kind of the long line, if the text has one
	Odd     bool   `json:"odd,omitempty"`  // the corruption is a dropped hex digit (odd digit count)
	Uniform bool   `json:"uniform,omitempty"`
}

func oracleHex(c *HexCase) (f *ev.Failure) {
	defer func() {
		if r := recover(); r != nil {
			f = ev.Failf("C20/hex-panic", "panic: %v", r)
		}
	}()
	got, err := prototest.ParseAnnotatedHex(c.Text)
	if c.Corrupt {
		if err == nil {
			return ev.Failf("C20/hex-accepts-garbage", "text with a non-hex character outside comments was accepted: %.300q -> %.64x", c.Text, got)
		}
		return nil
	}
	if err != nil {
		return ev.Failf("C20/hex-rejects-valid", "ParseAnnotatedHex(%.300q) [%d bytes of text]: %v", c.Text, len(c.Text), err)
	}
	if !bytes.Equal(got, c.Want) {
		return ev.Failf("C20/hex-wrong-bytes", "ParseAnnotatedHex(%.300q) [%d bytes of text] = %d bytes %.64x, the digits outside comments denote %d bytes %.64x", c.Text, len(c.Text), len(got), got, len(c.Want), c.Want)
	}
	return nil
}

var wsChars = []string{" ", " ", "\t", "\r", "  ", " \t "}

func genWS(t *rapid.T, label string) string {
	if rapid.IntRange(0, 2).Draw(t, label+"has") == 0 {
		return rapid.SampledFrom(wsChars).Draw(t, label)
	}
	return ""
}

func genComment(t *rapid.T) string {
	switch rapid.IntRange(0, 4).Draw(t, "ckind") {
	case 0:
		return ";"
	case 1: // hex-looking text and further semicolons inside the comment
		return "; " + rapid.StringMatching(`[0-9a-fA-F; ]{0,12}`).Draw(t, "chex")
	case 2:
		return ";;" + rapid.StringMatching(`[a-z0-9=,."' ;]{0,16}`).Draw(t, "ctext")
	default:
		return "; " + rapid.StringMatching(`[a-zA-Z0-9=,. ]{0,20}`).Draw(t, "ctext2")
	}
}

// genHexPart renders 0..40 random bytes with random digit case, whitespace, line breaks and comments.
func genHexPart(t *rapid.T, sb *strings.Builder) []byte {
	data := rapid.SliceOfN(rapid.Byte(), 0, 40).Draw(t, "data")
	// leading comment-only / blank lines
	for i := rapid.IntRange(0, 2).Draw(t, "lead"); i > 0; i-- {
		sb.WriteString(genWS(t, "lws"))
		if rapid.Bool().Draw(t, "leadc") {
			sb.WriteString(genComment(t))
		}
		sb.WriteString("\n")
	}
	for i, b := range data {
		sb.WriteString(genWS(t, "ws1"))
		hx := fmt.Sprintf("%02x", b)
		if rapid.Bool().Draw(t, "upper") {
			hx = strings.ToUpper(hx)
		}
		sb.WriteByte(hx[0])
		if rapid.IntRange(0, 5).Draw(t, "split") == 0 { // whitespace between the two digits of a byte
			sb.WriteString(rapid.SampledFrom(wsChars).Draw(t, "ws2"))
		}
		sb.WriteByte(hx[1])
		sb.WriteString(genWS(t, "ws3"))
		if i < len(data)-1 || rapid.Bool().Draw(t, "trail") {
			switch rapid.IntRange(0, 5).Draw(t, "eol") {
			case 0:
				sb.WriteString("\n")
			case 1:
				sb.WriteString(genComment(t) + "\n")
			case 2:
				sb.WriteString("\r\n")
			}
		}
	}
	return data
}

// dropOneDigit removes one hex digit that lies outside every comment.
func dropOneDigit(t *rapid.T, text string) (string, bool) {
	var pos []int
	inComment := false
	for i := 0; i < len(text); i++ {
		ch := text[i]
		switch {
		case ch == '\n':
			inComment = false
		case ch == ';':
			inComment = true
		case !inComment && (ch >= '0' && ch <= '9' || ch >= 'a' && ch <= 'f' || ch >= 'A' && ch <= 'F'):
			pos = append(pos, i)
		}
	}
	if len(pos) == 0 {
		return text, false
	}
	i := pos[len(pos)-1]
	if rapid.IntRange(0, 2).Draw(t, "oddlast") != 0 {
		i = rapid.SampledFrom(pos).Draw(t, "oddpos")
	}
	return text[:i] + text[i+1:], true
}

// bulkLens: physical line lengths around the buffer sizes text readers commonly use (4 KiB, 64 KiB) and beyond.
var bulkLens = []int{1000, 4095, 4096, 4097, 65534, 65535, 65536, 65537, 70000, 131072, 200001}

// genBulkLine writes one long physical line of about n bytes (hex digits, a comment, a whitespace run or a
// comment-only line) and returns the bytes it denotes.
func genBulkLine(t *rapid.T, sb *strings.Builder) (data []byte, kind string) {
	n := rapid.SampledFrom(bulkLens).Draw(t, "bulklen")
	seed := rapid.Byte().Draw(t, "bulkseed")
	kind = rapid.SampledFrom([]string{"hex", "comment", "whitespace", "comment-only"}).Draw(t, "bulkkind")
	switch kind {
	case "hex":
		for i := 0; i < n/2; i++ {
			data = append(data, seed+byte(i*7))
		}
		sb.WriteString(hex.EncodeToString(data))
		if n%2 == 1 {
			sb.WriteString(" ")
		}
	case "comment":
		data = []byte{seed}
		fmt.Fprintf(sb, "%02x ;", seed)
		sb.WriteString(strings.Repeat("c0 ", n/3))
	case "whitespace":
		data = []byte{seed, seed ^ 0xff}
		fmt.Fprintf(sb, "%02x", seed)
		sb.WriteString(strings.Repeat(" ", n-4))
		fmt.Fprintf(sb, "%02X", seed^0xff)
	case "comment-only":
		sb.WriteString(";" + strings.Repeat("-", n-1))
	}
	sb.WriteString("\n")
	return data, kind
}

func genHexCase(t *rapid.T) *HexCase {
	if rapid.IntRange(0, 9).Draw(t, "uniform") == 0 {
		// one line, no comment, every separator the same string - incl. the ASCII whitespace characters form feed
		// and vertical tab, and no separator at all
		data := rapid.SliceOfN(rapid.Byte(), 0, 12).Draw(t, "udata")
		sep := rapid.SampledFrom([]string{"", " ", "\t", "\f", "\v", "\f\v", "\r"}).Draw(t, "usep")
		var sb strings.Builder
		for i, b := range data {
			if i > 0 {
				sb.WriteString(sep)
			}
			fmt.Fprintf(&sb, "%02x", b)
		}
		if rapid.Bool().Draw(t, "utrail") {
			sb.WriteString(sep)
		}
		return &HexCase{Text: sb.String(), Want: data, Uniform: true}
	}
	var sb strings.Builder
	data := genHexPart(t, &sb)
	bulk := ""
	if rapid.IntRange(0, 9).Draw(t, "bulk") == 0 {
		// one long line between two ordinary parts
		if s := sb.String(); s != "" && !strings.HasSuffix(s, "\n") {
			sb.WriteString("\n")
		}
		var bd []byte
		bd, bulk = genBulkLine(t, &sb)
		data = append(data, bd...)
		data = append(data, genHexPart(t, &sb)...)
	}
	if rapid.IntRange(0, 3).Draw(t, "endcomment") == 0 {
		// the text ends in a comment that is NOT followed by a line break
		sb.WriteString(genWS(t, "ews") + genComment(t))
	}
	c := &HexCase{Text: sb.String(), Want: data, Bulk: bulk}
	if c.Want == nil {
		c.Want = []byte{}
	}
	if len(data) > 0 && bulk == "" && rapid.IntRange(0, 7).Draw(t, "odd") == 0 {
		// drop one hex digit outside the comments: an odd number of digits denotes no byte sequence at all and
		// must be rejected - wherever the dangling digit sits (1 in 3: in the very last byte of the text)
		if t2, ok := dropOneDigit(t, c.Text); ok {
			c.Text, c.Corrupt, c.Odd = t2, true, true
			return c
		}
	}
	if rapid.IntRange(0, 3).Draw(t, "corrupt") == 0 {
		// insert one offending character outside any comment: at the very start of a line
		bad := rapid.SampledFrom([]string{"g", "x", "-", ":", ",", "#", "/", "0x", "Z", "é", ".", "_", "'", "\"", "\\", "|", "\x00", "%"}).Draw(t, "bad")
		ls := strings.Split(c.Text, "\n")
		i := rapid.IntRange(0, len(ls)-1).Draw(t, "badline")
		ls[i] = bad + ls[i]
		c.Text = strings.Join(ls, "\n")
		c.Corrupt = true
	}
	return c
}

// ---------------- protodump ----------------

// DumpCase: input bytes plus the two path sets.
type DumpCase struct {
	In      []byte   `json:"in"`
	Expand  []string `json:"expand"`
	Strings []string `json:"strings"`
}

type dumpEntry struct {
	Depth int
	Num   int
	WT    string
	Val   string // canonical rendering: "v:<int64>", "f32:<u>", "f64:<u>", "s:<string>", "b:<hex>"
}

var wtNames = map[int]string{0: "varint", 1: "fixed64", 2: "length-delimited", 5: "fixed32"}

type refStatus int

const (
	refOK refStatus = iota
	refMalformed
	refAmbiguous
)

func pathKey(p []int) string {
	ss := make([]string, len(p))
	for i, v := range p {
		ss[i] = strconv.Itoa(v)
	}
	return strings.Join(ss, ".")
}

// refDump is the reference: a refwire walk that recurses into exactly the expand paths and renders
// strings on exactly the strings paths.
func refDump(b []byte, path []int, depth int, expand, strs map[string]bool, out *[]dumpEntry) refStatus {
	off := 0
	for off < len(b) {
		k, n, err := refwire.Varint(b[off:])
		if err != nil {
			return refMalformed
		}
		if k == 0 || k>>3 > refwire.MaxFieldNumber {
			return refMalformed
		}
		if k>>3 == 0 {
			return refAmbiguous // field number 0 with a non-zero key: csproto's DecodeTag lets it through
		}
		_ = n
		f, err := refwire.Next(b, off)
		if err != nil {
			return refMalformed
		}
		p := append(append([]int{}, path...), f.Num)
		e := dumpEntry{Depth: depth, Num: f.Num, WT: wtNames[f.WT]}
		switch f.WT {
		case refwire.WTVarint:
			e.Val = "v:" + strconv.FormatInt(int64(f.Varint), 10)
		case refwire.WTFixed32:
			v, _ := refwire.Fixed32(b[f.ValStart:])
			e.Val = "f32:" + strconv.FormatUint(uint64(v), 10)
		case refwire.WTFixed64:
			v, _ := refwire.Fixed64(b[f.ValStart:])
			e.Val = "f64:" + strconv.FormatUint(v, 10)
		case refwire.WTLen:
			payload := b[f.PayloadStart:f.End]
			if strs[pathKey(p)] {
				e.Val = "s:" + string(payload)
				*out = append(*out, e)
			} else {
				e.Val = "b:" + fmt.Sprintf("%x", payload)
				*out = append(*out, e)
				if expand[pathKey(p)] {
					if st := refDump(payload, p, depth+1, expand, strs, out); st != refOK {
						return st
					}
				}
			}
			off = f.End
			continue
		}
		*out = append(*out, e)
		off = f.End
	}
	return refOK
}

var (
	reTag    = regexp.MustCompile(`^( *)tag: *(\d+), *wire type: *(\S+)\s*$`)
	reVarint = regexp.MustCompile(`^ *varint: *(-?\d+)\s*$`)
	reF32    = regexp.MustCompile(`^ *fixed32: *(\d+)\s*$`)
	reF64    = regexp.MustCompile(`^ *fixed64: *(\d+)\s*$`)
	reLen    = regexp.MustCompile(`^ *length: *(\d+)\s*$`)
	reStr    = regexp.MustCompile(`^ *string: ?(.*)$`)
	reBytes  = regexp.MustCompile(`^ *\[(.*)\]\s*$`)
)

// parseDump is the tolerant reader of protodump's output.
func parseDump(out string) ([]dumpEntry, error) {
	var res []dumpEntry
	lines := strings.Split(out, "\n")
	for i := 0; i < len(lines); i++ {
		ln := lines[i]
		if strings.TrimSpace(ln) == "" {
			continue
		}
		m := reTag.FindStringSubmatch(ln)
		if m == nil {
			return res, fmt.Errorf("line %d: expected an entry header, got %q", i, ln)
		}
		num, _ := strconv.Atoi(m[2])
		e := dumpEntry{Depth: len(m[1]) / 2, Num: num, WT: m[3]}
		if i+1 >= len(lines) {
			res = append(res, e)
			break
		}
		i++
		v := lines[i]
		switch {
		case reVarint.MatchString(v):
			e.Val = "v:" + reVarint.FindStringSubmatch(v)[1]
		case reF32.MatchString(v):
			e.Val = "f32:" + reF32.FindStringSubmatch(v)[1]
		case reF64.MatchString(v):
			e.Val = "f64:" + reF64.FindStringSubmatch(v)[1]
		case reLen.MatchString(v):
			l, _ := strconv.Atoi(reLen.FindStringSubmatch(v)[1])
			i++
			if i >= len(lines) {
				return res, fmt.Errorf("line %d: length without a value line", i)
			}
			w := lines[i]
			if sm := reStr.FindStringSubmatch(w); sm != nil {
				e.Val = "s:" + sm[1]
				if len(sm[1]) != l {
					return res, fmt.Errorf("line %d: string of %d bytes under length %d", i, len(sm[1]), l)
				}
			} else if bm := reBytes.FindStringSubmatch(w); bm != nil {
				var hx strings.Builder
				cnt := 0
				if strings.TrimSpace(bm[1]) != "" {
					for _, tok := range strings.Split(bm[1], ",") {
						tok = strings.TrimSpace(tok)
						tok = strings.TrimPrefix(strings.TrimPrefix(tok, "0x"), "0X")
						x, err := strconv.ParseUint(tok, 16, 8)
						if err != nil {
							return res, fmt.Errorf("line %d: bad byte %q", i, tok)
						}
						fmt.Fprintf(&hx, "%02x", x)
						cnt++
					}
				}
				if cnt != l {
					return res, fmt.Errorf("line %d: %d bytes listed under length %d", i, cnt, l)
				}
				e.Val = "b:" + hx.String()
			} else {
				return res, fmt.Errorf("line %d: unrecognised value line %q", i, w)
			}
		default:
			return res, fmt.Errorf("line %d: unrecognised value line %q", i, v)
		}
		res = append(res, e)
	}
	return res, nil
}

func setOf(ps []string) map[string]bool {
	m := map[string]bool{}
	for _, p := range ps {
		m[p] = true
	}
	return m
}

// errUnparseable marks harness trouble (protodump's labels changed), not a violation.
type dumpResult struct {
	f           *ev.Failure
	status      refStatus
	unparseable error
}

func compareDump(c *DumpCase, how string, out string, runErr error, panicked any) dumpResult {
	var want []dumpEntry
	st := refDump(c.In, nil, 0, setOf(c.Expand), setOf(c.Strings), &want)
	if panicked != nil {
		return dumpResult{f: ev.Failf("C20/dump-panic/"+how, "dumpProto panicked on %x: %v", c.In, panicked), status: st}
	}
	switch st {
	case refAmbiguous:
		return dumpResult{status: st}
	case refMalformed:
		if runErr == nil {
			return dumpResult{f: ev.Failf("C20/dump-malformed-accepted/"+how, "malformed input %x (expand %v) was dumped without an error", c.In, c.Expand), status: st}
		}
		return dumpResult{status: st}
	}
	if runErr != nil {
		return dumpResult{f: ev.Failf("C20/dump-error-on-valid/"+how, "well-formed input %x (expand %v strings %v): %v", c.In, c.Expand, c.Strings, runErr), status: st}
	}
	got, perr := parseDump(out)
	if perr != nil {
		return dumpResult{unparseable: fmt.Errorf("%v\noutput:\n%s", perr, out), status: st}
	}
	if len(got) != len(want) {
		return dumpResult{f: ev.Failf("C20/dump-entries/"+how, "input %x expand %v strings %v: %d entries printed, the reference finds %d\noutput:\n%s", c.In, c.Expand, c.Strings, len(got), len(want), out), status: st}
	}
	for i := range got {
		if got[i] != want[i] {
			kind := "value"
			if got[i].Depth != want[i].Depth {
				kind = "depth"
			} else if got[i].Num != want[i].Num || got[i].WT != want[i].WT {
				kind = "header"
			}
			return dumpResult{f: ev.Failf("C20/dump-"+kind+"/"+how, "input %x expand %v strings %v: entry %d printed as %+v, the reference finds %+v", c.In, c.Expand, c.Strings, i, got[i], want[i]), status: st}
		}
	}
	return dumpResult{status: st}
}

func oracleDumpInProc(c *DumpCase) dumpResult {
	var buf bytes.Buffer
	var err error
	var panicked any
	func() {
		defer func() { panicked = recover() }()
		err = protodumpsrc.VerifDump(&buf, c.In, c.Expand, c.Strings)
	}()
	return compareDump(c, "inproc", buf.String(), err, panicked)
}

// oracleDumpBinary runs the built protodump binary; via selects "-file" or "stdin-pipe" or "stdin-file".
func oracleDumpBinary(c *DumpCase, via string) dumpResult {
	bin := os.Getenv("VERIF_PROTODUMP_BIN")
	dir, _ := os.MkdirTemp(os.Getenv("VERIF_WORK"), "dump")
	defer os.RemoveAll(dir)
	fn := dir + "/in.bin"
	_ = os.WriteFile(fn, c.In, 0o644)
	var args []string
	for _, p := range c.Expand {
		args = append(args, "-expand", p)
	}
	if len(c.Strings) > 0 {
		args = append(args, "-strings", strings.Join(c.Strings, ","))
	}
	var cmd *exec.Cmd
	switch via {
	case "file":
		cmd = exec.Command(bin, append([]string{"-file", fn}, args...)...)
	case "stdin-pipe":
		cmd = exec.Command(bin, args...)
		cmd.Stdin = bytes.NewReader(c.In) // os/exec feeds a non-file reader through a pipe
	case "stdin-file":
		cmd = exec.Command(bin, args...)
		f, _ := os.Open(fn)
		defer f.Close()
		cmd.Stdin = f
	}
	var so, se bytes.Buffer
	cmd.Stdout, cmd.Stderr = &so, &se
	err := cmd.Run()
	var panicked any
	if strings.Contains(se.String(), "panic:") || strings.Contains(se.String(), "goroutine ") {
		panicked = se.String()
	}
	var runErr error
	if err != nil {
		runErr = fmt.Errorf("exit: %v, stderr: %s", err, strings.TrimSpace(se.String()))
	}
	return compareDump(c, via, so.String(), runErr, panicked)
}

func collectPaths(fs []wiregen.WField, prefix []int, msgs, lens *[]string) {
	for _, f := range fs {
		if f.WT != refwire.WTLen {
			continue
		}
		p := append(append([]int{}, prefix...), f.Num)
		if f.IsMsg {
			*msgs = append(*msgs, pathKey(p))
			collectPaths(f.Nested, p, msgs, lens)
		} else {
			*lens = append(*lens, pathKey(p))
		}
	}
}

// printable payloads without line breaks for the fields rendered as strings
func genDumpFields(t *rapid.T, depth int) []wiregen.WField {
	n := rapid.IntRange(0, 6).Draw(t, "nf")
	var out []wiregen.WField
	for i := 0; i < n; i++ {
		f := wiregen.WField{Num: rapid.OneOf(rapid.IntRange(1, 6), wiregen.FieldNumber()).Draw(t, "num")}
		switch rapid.IntRange(0, 6).Draw(t, "k") {
		case 0, 1:
			f.WT = refwire.WTVarint
			f.Varint = wiregen.U64().Draw(t, "v")
		case 2:
			f.WT = refwire.WTFixed32
			f.Fixed = uint64(uint32(wiregen.U64().Draw(t, "f32")))
		case 3:
			f.WT = refwire.WTFixed64
			f.Fixed = wiregen.U64().Draw(t, "f64")
		case 4:
			f.WT = refwire.WTLen
			f.Payload = []byte(rapid.StringMatching(`[ -~]{0,12}`).Draw(t, "str"))
			if rapid.IntRange(0, 7).Draw(t, "long") == 0 {
				// a long payload: lengths around the buffer sizes a renderer may use (64, 128, 256, 512, 1024, 4096)
				l := rapid.SampledFrom([]int{63, 64, 65, 127, 128, 129, 255, 256, 257, 511, 512, 513, 768, 1024, 1025, 4096, 4097}).Draw(t, "longlen")
				b := rapid.Byte().Draw(t, "longfill")
				f.Payload = bytes.Repeat([]byte{b, b + 1, 'a'}, l/3+1)[:l]
			}
		default:
			f.WT = refwire.WTLen
			if depth > 0 {
				f.IsMsg = true
				f.Nested = genDumpFields(t, depth-1)
			} else {
				f.Payload = rapid.SliceOfN(rapid.Byte(), 0, 8).Draw(t, "raw")
			}
		}
		out = append(out, f)
	}
	return out
}

func genDumpCase(t *rapid.T) (*DumpCase, bool) {
	fs := genDumpFields(t, 3)
	c := &DumpCase{In: wiregen.Encode(nil, fs), Expand: []string{}, Strings: []string{}}
	var msgs, lens []string
	collectPaths(fs, nil, &msgs, &lens)
	used := map[string]bool{}
	add := func(dst *[]string, p string) {
		if !used[p] {
			used[p] = true
			*dst = append(*dst, p)
		}
	}
	// expand: mostly nested-message paths (a deeper one only takes effect if its parents are expanded too)
	for _, p := range msgs {
		if rapid.IntRange(0, 2).Draw(t, "exp") != 0 {
			add(&c.Expand, p)
		}
	}
	// strings: printable leaf payloads
	for _, p := range lens {
		if rapid.IntRange(0, 1).Draw(t, "str") == 0 {
			ok := true
			// only when every occurrence on that path is printable without line breaks (keeps the reader unambiguous)
			if ok {
				add(&c.Strings, p)
			}
		}
	}
	// absent paths
	if rapid.Bool().Draw(t, "absent") {
		add(&c.Expand, pathKey(rapid.SliceOfN(rapid.IntRange(1, 9), 1, 3).Draw(t, "ap")))
		add(&c.Strings, pathKey(rapid.SliceOfN(rapid.IntRange(1, 9), 1, 3).Draw(t, "sp")))
	}
	// sometimes expand a raw leaf (may or may not be a well-formed message: the reference decides)
	if len(lens) > 0 && rapid.IntRange(0, 3).Draw(t, "expleaf") == 0 {
		add(&c.Expand, rapid.SampledFrom(lens).Draw(t, "leaf"))
	}
	mutated := false
	if rapid.IntRange(0, 3).Draw(t, "mutate") == 0 && len(c.In) > 0 {
		mutated = true
		b := append([]byte{}, c.In...)
		switch rapid.IntRange(0, 4).Draw(t, "mk") {
		case 4:
			// a length-delimited field whose declared length is far beyond the input: at the limits of the 32- and
			// 64-bit integer types (in front, between two fields or at the end - also inside an expanded payload when
			// the position falls into one)
			hostile := refwire.AppendVarint(refwire.AppendKey(nil, rapid.SampledFrom([]int{1, 2, 15, 2048}).Draw(t, "hnum"), refwire.WTLen),
				rapid.SampledFrom([]uint64{1<<31 - 1, 1 << 31, 1<<32 - 1, 1 << 32, 1 << 40, 1<<62 - 1, 1<<63 - 1, 1<<63 - 2, 1<<63 - 9, 1<<63 - 12, 1 << 63, 1<<64 - 1}).Draw(t, "hlen"))
			pos := 0
			if fs, err := refwire.Walk(b); err == nil && len(fs) > 0 {
				pos = rapid.SampledFrom(append([]int{0, len(b)}, fs[rapid.IntRange(0, len(fs)-1).Draw(t, "hat")].End)).Draw(t, "hpos")
			}
			b = append(append(append([]byte{}, b[:pos]...), hostile...), b[pos:]...)
		case 0:
			b = b[:rapid.IntRange(0, len(b)-1).Draw(t, "tr")]
		case 1:
			i := rapid.IntRange(0, len(b)-1).Draw(t, "pos")
			b[i] = rapid.SampledFrom([]byte{0x00, 0x7f, 0x80, 0xff, 0x0b, 0x0c, b[i] ^ 0x80, b[i] ^ 4}).Draw(t, "nb")
		case 2:
			b = append(b, rapid.SampledFrom([][]byte{{0x0b}, {0x0a, 0xff, 0xff, 0xff, 0xff, 0x0f}, {0x80}, {0x08}, {0x0d, 1, 2}, {0x09, 1, 2, 3}}).Draw(t, "tail")...)
		case 3:
			b = append(rapid.SliceOfN(rapid.Byte(), 1, 6).Draw(t, "head"), b...)
		}
		c.In = b
	}
	return c, mutated
}

// strings rendered with "string: %s" must not contain line breaks or the reader is ambiguous; such
// paths are dropped from the strings set (they stay in the input)
func sanitizeStrings(c *DumpCase) {
	var want []dumpEntry
	if refDump(c.In, nil, 0, setOf(c.Expand), setOf(c.Strings), &want) != refOK {
		return
	}
	for _, e := range want {
		if strings.HasPrefix(e.Val, "s:") && strings.ContainsAny(e.Val, "\n\r") {
			c.Strings = []string{}
			return
		}
	}
}

const ruleC20 = "(hex) random byte strings rendered with random digit case, spaces/tabs/CR anywhere incl. between the two digits of a byte, line breaks at byte boundaries, ';' comments containing arbitrary text incl. ';' and hex digits, comment-only lines, a final comment without line break, 1 in 10 a single line whose separators are all the same string out of {none, space, tab, CR, form feed, vertical tab}, 1 in 10 with one physical line of 1000 .. 200001 bytes (sizes around 4 KiB and 64 KiB; hex digits, a long comment, a whitespace run or a comment-only line) between two ordinary parts; 1 in 4 corrupted with one non-hex non-space character outside comments, 1 in 8 with one hex digit dropped (odd digit count) - both must be rejected; oracle: ParseAnnotatedHex(render(b)) == b. " +
	"(protodump) generated wire sequences (nesting depth <= 3, all four wire types, numbers up to 2^29-1, 1 in 8 length-delimited payloads 63..4097 bytes long), 1 in 4 mutated (truncated, a byte overwritten, garbage appended / prepended, a length-delimited field declaring a length at the limits of the 32- / 64-bit integer types inserted), x random disjoint -expand/-strings path sets over present and absent paths; dumpProto (working-tree source compiled into the harness) and the built binary (-file, stdin pipe, stdin file) are read by a tolerant reader into (depth, number, wire type, value) entries == refwire walk recursing into exactly the expand paths; malformed => error, never a panic. " +
	"non-trivial = hex text with >= 1 comment and >= 1 line break; dump input with >= 1 length-delimited field and >= 1 path; distinct by text / (input, paths)"

func TestC20(t *testing.T) {
	rec := ev.New("C20", ruleC20)
	defer rec.Write()
	defer func() { t.Log(rec.Summary()) }()
	rec.Assume("inputs whose key has field number 0 with a non-zero wire type are treated as ambiguous (csproto's DecodeTag lets them through) and only checked for panics")
	ev.Rapid(t, ev.N(40000, 800000), 20, func(rt *rapid.T) {
		c := genHexCase(rt)
		rec.Eval(1)
		if c.Corrupt {
			rec.Class("hex/corrupted")
		} else {
			rec.Class("hex/valid")
		}
		if c.Bulk != "" {
			rec.Class("hex/long-line/" + c.Bulk)
		}
		if c.Odd {
			rec.Class("hex/odd-digit-count")
		}
		if c.Uniform {
			rec.Class("hex/one-line-uniform-separator")
		}
		if strings.Contains(c.Text, ";") && strings.Contains(c.Text, "\n") {
			rec.NonTrivial(ev.FP("hex", c.Text))
			if c.Bulk == "" {
				rec.Sample("hex", c)
			} else {
				rec.Sample("hex-long-line", map[string]any{"bulk": c.Bulk, "text_len": len(c.Text), "want_len": len(c.Want), "corrupt": c.Corrupt, "text_head": fmt.Sprintf("%.120q", c.Text)})
			}
		}
		rec.Check(rt, "hex", c, oracleHex(c))
	})
	// calibration: does the tolerant reader understand the output format at all?  Fixed small inputs covering every
	// wire type, an expanded path and a strings path.  If not, the format changed wholesale and nothing can be
	// judged (infrastructure).  Once it does, an entry the reader cannot read is an entry that does not carry its
	// value the way every other entry does: a violation for that input.
	for _, c := range calibrationDumps() {
		if r := oracleDumpInProc(c); r.unparseable != nil {
			t.Logf("HARNESS: protodump output could not be read by the tolerant reader: %v", r.unparseable)
			fmt.Println("INFRA-UNPARSEABLE protodump output format is not understood by the reader")
			t.FailNow()
		}
	}
	ev.Rapid(t, ev.N(20000, 400000), 21, func(rt *rapid.T) {
		c, mutated := genDumpCase(rt)
		sanitizeStrings(c)
		rec.Eval(1)
		r := oracleDumpInProc(c)
		if r.unparseable != nil && r.f == nil {
			r.f = ev.Failf("C20/dump-entry-unreadable/inproc", "input %.64x (%d bytes) expand %v strings %v: an entry of the output cannot be read although the format is understood on the calibration inputs: %.600v", c.In, len(c.In), c.Expand, c.Strings, r.unparseable)
		}
		switch r.status {
		case refOK:
			rec.Class("dump/well-formed")
		case refMalformed:
			rec.Class("dump/malformed")
		default:
			rec.Class("dump/ambiguous-field-number-0")
		}
		if mutated {
			rec.Class("dump/mutated")
		}
		if bytes.IndexByte(c.In, 0) >= 0 || len(c.In) > 0 {
			if len(c.Expand)+len(c.Strings) > 0 && hasLen(c.In) {
				cj, _ := json.Marshal(c)
				rec.NonTrivial(ev.FP("dump", cj))
				rec.Sample("dump", map[string]any{"in_hex": fmt.Sprintf("%x", c.In), "expand": c.Expand, "strings": c.Strings})
			}
		}
		rec.Check(rt, "dump", c, r.f)
	})
	// the real binary, through its three input routes
	if os.Getenv("VERIF_PROTODUMP_BIN") != "" {
		for _, via := range []string{"file", "stdin-pipe", "stdin-file"} {
			via := via
			ev.Rapid(t, ev.N(240, 6000)/3+1, 22, func(rt *rapid.T) {
				c, _ := genDumpCase(rt)
				sanitizeStrings(c)
				if len(c.In) == 0 {
					c.In = []byte{0x08, 0x01} // "no data" is a usage error on stdin, not a dump
				}
				rec.Eval(1)
				rec.Class("dump-binary/" + via)
				r := oracleDumpBinary(c, via)
				if r.unparseable != nil && r.f == nil {
					r.f = ev.Failf("C20/dump-entry-unreadable/"+via, "input %.64x expand %v strings %v: an entry of the binary's output cannot be read: %.600v", c.In, c.Expand, c.Strings, r.unparseable)
				}
				if len(c.Expand)+len(c.Strings) > 0 && hasLen(c.In) {
					cj, _ := json.Marshal(c)
					rec.NonTrivial(ev.FP("dumpbin", via, cj))
				}
				rec.Check(rt, "dump-"+via, c, r.f)
			})
		}
	}
}

// calibrationDumps: fixed well-formed inputs whose rendering the reader must understand.
func calibrationDumps() []*DumpCase {
	inner := wiregen.Encode(nil, []wiregen.WField{{Num: 1, WT: refwire.WTVarint, Varint: 5}, {Num: 2, WT: refwire.WTLen, Payload: []byte("hi")}})
	fs := []wiregen.WField{
		{Num: 1, WT: refwire.WTVarint, Varint: 150},
		{Num: 2, WT: refwire.WTFixed32, Fixed: 7},
		{Num: 3, WT: refwire.WTFixed64, Fixed: 9},
		{Num: 4, WT: refwire.WTLen, Payload: []byte("text")},
		{Num: 5, WT: refwire.WTLen, Payload: []byte{0, 1, 0xfe}},
		{Num: 6, WT: refwire.WTLen, Payload: inner},
		{Num: 7, WT: refwire.WTLen, Payload: []byte{}},
	}
	in := wiregen.Encode(nil, fs)
	return []*DumpCase{
		{In: in, Expand: []string{}, Strings: []string{}},
		{In: in, Expand: []string{"6"}, Strings: []string{"4"}},
		{In: in, Expand: []string{"6"}, Strings: []string{"4", "6.2"}},
		{In: []byte{0x08, 0x01}, Expand: []string{}, Strings: []string{}},
	}
}

func hasLen(b []byte) bool {
	fs, _ := refwire.Walk(b)
	for _, f := range fs {
		if f.WT == refwire.WTLen {
			return true
		}
	}
	return false
}

func TestReplay(t *testing.T) {
	ev.RunReplay(t, func(rp *ev.Replay) *ev.Failure {
		switch rp.Test {
		case "hex":
			var c HexCase
			if err := json.Unmarshal(rp.Case, &c); err != nil {
				return ev.Failf("C20/replay", "bad case: %v", err)
			}
			return oracleHex(&c)
		case "dump", "dump-file", "dump-stdin-pipe", "dump-stdin-file":
			var c DumpCase
			if err := json.Unmarshal(rp.Case, &c); err != nil {
				return ev.Failf("C20/replay", "bad case: %v", err)
			}
			// (replays only exist for cases found after the reader passed its calibration)
			for _, cal := range calibrationDumps() {
				if r := oracleDumpInProc(cal); r.unparseable != nil {
					panic("harness: protodump output format is not understood by the reader")
				}
			}
			how := "inproc"
			r := oracleDumpInProc(&c)
			if rp.Test != "dump" {
				how = strings.TrimPrefix(rp.Test, "dump-")
				r = oracleDumpBinary(&c, how)
			}
			if r.f == nil && r.unparseable != nil {
				return ev.Failf("C20/dump-entry-unreadable/"+how, "an entry of the output cannot be read: %.600v", r.unparseable)
			}
			return r.f
		}
		return ev.Failf("C20/replay", "unknown replay kind %s", rp.Test)
	})
}
