package wire

import (
	"bytes"
	"encoding/json"
	"errors"
	"fmt"
	"strings"
	"testing"

	"github.com/CrowdStrike/csproto"
	gogo "github.com/gogo/protobuf/proto"
	gogodesc "github.com/gogo/protobuf/protoc-gen-gogo/descriptor"
	golang "github.com/golang/protobuf/proto"
	"google.golang.org/protobuf/proto"
	"google.golang.org/protobuf/reflect/protoreflect"
	"google.golang.org/protobuf/types/descriptorpb"
	"google.golang.org/protobuf/types/known/durationpb"
	"google.golang.org/protobuf/types/known/structpb"
	"google.golang.org/protobuf/types/known/timestamppb"
	"google.golang.org/protobuf/types/known/wrapperspb"
	"pgregory.net/rapid"

	"verif/harness/internal/ev"
	"verif/harness/internal/refwire"
	"verif/harness/internal/wiregen"
)

// ---- the five nested-message flavours ----

var errNestedMarshal = errors.New("nested marshal failure (stub)")
var errNestedUnmarshal = errors.New("nested unmarshal failure (stub)")

// fmStub marshals itself into a supplied buffer (the fast-marshal flavour: Size + MarshalTo [+ Marshal]).
type fmStub struct {
	Payload   []byte
	FailM     bool
	FailU     bool
	uCalls    int
	mCalls    int
	noMarshal bool
}

func (s *fmStub) Size() int { return len(s.Payload) }
func (s *fmStub) MarshalTo(dest []byte) error {
	s.mCalls++
	if s.FailM {
		return errNestedMarshal
	}
	if len(dest) < len(s.Payload) {
		return fmt.Errorf("stub: buffer too small")
	}
	copy(dest, s.Payload)
	return nil
}
func (s *fmStub) Marshal() ([]byte, error) {
	s.mCalls++
	if s.FailM {
		return nil, errNestedMarshal
	}
	return append([]byte{}, s.Payload...), nil
}
func (s *fmStub) Unmarshal(b []byte) error {
	s.uCalls++
	if s.FailU {
		return errNestedUnmarshal
	}
	s.Payload = append([]byte{}, b...)
	return nil
}

// moStub marshals itself to a fresh slice only (Size + Marshal, no MarshalTo).
type moStub struct {
	Payload []byte
	FailM   bool
	FailU   bool
	uCalls  int
}

func (s *moStub) Size() int { return len(s.Payload) }
func (s *moStub) Marshal() ([]byte, error) {
	if s.FailM {
		return nil, errNestedMarshal
	}
	return append([]byte{}, s.Payload...), nil
}
func (s *moStub) Unmarshal(b []byte) error {
	s.uCalls++
	if s.FailU {
		return errNestedUnmarshal
	}
	s.Payload = append([]byte{}, b...)
	return nil
}

// durWrap marshals itself to a fresh slice (Marshal method) but has NO Size method of its own: it embeds a Google v2
// message, so its size comes from the runtime.  Its own encoding writes nanos before seconds (legal, and visibly
// not what the runtime would write); FailM makes its Marshal fail.
type durWrap struct {
	*durationpb.Duration
	FailM bool
}

func (w *durWrap) Marshal() ([]byte, error) {
	if w.FailM {
		return nil, errNestedMarshal
	}
	var b []byte
	if w.GetNanos() != 0 {
		b = refwire.AppendVarint(refwire.AppendKey(b, 2, 0), uint64(int64(w.GetNanos())))
	}
	if w.GetSeconds() != 0 {
		b = refwire.AppendVarint(refwire.AppendKey(b, 1, 0), uint64(w.GetSeconds()))
	}
	return b, nil
}

// LegacyMsg is a message in the style protoc-gen-go emitted before APIv2 (csproto: MessageTypeGoogleV1):
// no ProtoReflect, XXX_ methods backed by golang/protobuf's InternalMessageInfo.
type LegacyMsg struct {
	A                    *int32     `protobuf:"varint,1,opt,name=a" json:"a,omitempty"`
	S                    *string    `protobuf:"bytes,2,opt,name=s" json:"s,omitempty"`
	R                    []int64    `protobuf:"varint,3,rep,name=r" json:"r,omitempty"`
	Child                *LegacyMsg `protobuf:"bytes,4,opt,name=child" json:"child,omitempty"`
	B                    []byte     `protobuf:"bytes,5,opt,name=b" json:"b,omitempty"`
	XXX_NoUnkeyedLiteral struct{}   `json:"-"`
	XXX_unrecognized     []byte     `json:"-"`
	XXX_sizecache        int32      `json:"-"`
}

func (m *LegacyMsg) Reset()         { *m = LegacyMsg{} }
func (m *LegacyMsg) String() string { return golang.CompactTextString(m) }
func (*LegacyMsg) ProtoMessage()    {}
func (m *LegacyMsg) XXX_Unmarshal(b []byte) error {
	return xxx_messageInfo_LegacyMsg.Unmarshal(m, b)
}
func (m *LegacyMsg) XXX_Marshal(b []byte, deterministic bool) ([]byte, error) {
	return xxx_messageInfo_LegacyMsg.Marshal(b, m, deterministic)
}
func (m *LegacyMsg) XXX_Merge(src golang.Message) { xxx_messageInfo_LegacyMsg.Merge(m, src) }
func (m *LegacyMsg) XXX_Size() int                { return xxx_messageInfo_LegacyMsg.Size(m) }
func (m *LegacyMsg) XXX_DiscardUnknown()          { xxx_messageInfo_LegacyMsg.DiscardUnknown(m) }

var xxx_messageInfo_LegacyMsg golang.InternalMessageInfo

// NestedSpec is the JSON-serialisable description of a nested message value.
type NestedSpec struct {
	Flavour string   `json:"flavour"` // marshalto | marshalonly | gogo | legacy | gv2-timestamp | gv2-duration | gv2-struct | gv2-string | gv2-bytes | gv2-descriptor | gv2-nil
	Payload []byte   `json:"payload,omitempty"`
	PayLen  int      `json:"payload_len,omitempty"` // stubs: a synthetic payload of this length (instead of Payload)
	I       int64    `json:"i,omitempty"`
	J       int32    `json:"j,omitempty"`
	S       string   `json:"s,omitempty"`
	Names   []string `json:"names,omitempty"`
	Empty   bool     `json:"empty,omitempty"`
	FailM   bool     `json:"fail_m,omitempty"`
	FailU   bool     `json:"fail_u,omitempty"`
}

func (n *NestedSpec) build() (msg any, fresh func() any) {
	if n.PayLen > 0 {
		n = &NestedSpec{Flavour: n.Flavour, Payload: bytes.Repeat([]byte{0x08, 0x01}, n.PayLen/2+1)[:n.PayLen], FailM: n.FailM, FailU: n.FailU}
	}
	switch n.Flavour {
	case "marshalto":
		return &fmStub{Payload: n.Payload, FailM: n.FailM}, func() any { return &fmStub{FailU: n.FailU} }
	case "marshalonly":
		return &moStub{Payload: n.Payload, FailM: n.FailM}, func() any { return &moStub{FailU: n.FailU} }
	case "marshalonly-wrapper":
		d := &durationpb.Duration{}
		if !n.Empty {
			d.Seconds, d.Nanos = int64(n.J)+1, int32(len(n.S))+1
		}
		return &durWrap{Duration: d, FailM: n.FailM}, func() any { return &durWrap{Duration: &durationpb.Duration{}} }
	case "gogo":
		m := &gogodesc.DescriptorProto{}
		if !n.Empty {
			m.Name = gogo.String(n.S)
			for i, nm := range n.Names {
				m.Field = append(m.Field, &gogodesc.FieldDescriptorProto{Name: gogo.String(nm), Number: gogo.Int32(n.J + int32(i))})
			}
		}
		return m, func() any { return &gogodesc.DescriptorProto{} }
	case "legacy":
		m := &LegacyMsg{}
		if !n.Empty {
			m.A = golang.Int32(n.J)
			m.S = golang.String(n.S)
			m.R = []int64{n.I, -n.I, 0}
			m.B = n.Payload
			if len(n.Names) > 0 {
				m.Child = &LegacyMsg{S: golang.String(n.Names[0])}
			}
		}
		return m, func() any { return &LegacyMsg{} }
	case "gv2-timestamp":
		m := &timestamppb.Timestamp{}
		if !n.Empty {
			m.Seconds, m.Nanos = n.I, n.J
		}
		return m, func() any { return &timestamppb.Timestamp{} }
	case "gv2-duration":
		m := &durationpb.Duration{}
		if !n.Empty {
			m.Seconds, m.Nanos = n.I, n.J
		}
		return m, func() any { return &durationpb.Duration{} }
	case "gv2-string":
		m := &wrapperspb.StringValue{}
		if !n.Empty {
			m.Value = n.S
		}
		return m, func() any { return &wrapperspb.StringValue{} }
	case "gv2-bytes":
		m := &wrapperspb.BytesValue{}
		if !n.Empty {
			m.Value = n.Payload
		}
		return m, func() any { return &wrapperspb.BytesValue{} }
	case "gv2-struct":
		m := &structpb.Struct{}
		if !n.Empty {
			// a single map entry keeps the encoding independent of map iteration order
			key := "s"
			if len(n.Names) > 0 {
				key = n.Names[0]
			}
			m.Fields = map[string]*structpb.Value{key: structpb.NewStringValue(n.S)}
		}
		return m, func() any { return &structpb.Struct{} }
	case "gv2-descriptor":
		m := &descriptorpb.DescriptorProto{}
		if !n.Empty {
			m.Name = proto.String(n.S)
			for i, nm := range n.Names {
				m.Field = append(m.Field, &descriptorpb.FieldDescriptorProto{Name: proto.String(nm), Number: proto.Int32(n.J + int32(i))})
			}
		}
		return m, func() any { return &descriptorpb.DescriptorProto{} }
	case "gv2-nil":
		return (*timestamppb.Timestamp)(nil), func() any { return &timestamppb.Timestamp{} }
	case "gv2-required": // a proto2 message with two required fields, only known to the Google V2 runtime
		m := &descriptorpb.UninterpretedOption_NamePart{}
		if !n.Empty {
			m.NamePart, m.IsExtension = proto.String(n.S), proto.Bool(n.J&1 == 1)
		}
		return m, func() any { return &descriptorpb.UninterpretedOption_NamePart{} }
	case "gv2-required-child": // a proto2 message WITHOUT required fields of its own whose child message has two
		m := &descriptorpb.UninterpretedOption{IdentifierValue: proto.String("id")}
		if n.Empty {
			m.Name = []*descriptorpb.UninterpretedOption_NamePart{{}} // the child's required fields are unset
		} else {
			m.Name = []*descriptorpb.UninterpretedOption_NamePart{{NamePart: proto.String(n.S), IsExtension: proto.Bool(n.J&1 == 1)}}
		}
		return m, func() any { return &descriptorpb.UninterpretedOption{} }
	case "gogo-required":
		m := &gogodesc.UninterpretedOption_NamePart{}
		if !n.Empty {
			m.NamePart, m.IsExtension = gogo.String(n.S), gogo.Bool(n.J&1 == 1)
		}
		return m, func() any { return &gogodesc.UninterpretedOption_NamePart{} }
	}
	panic("unknown flavour " + n.Flavour)
}

// NCase: scalar fields before, the nested field, scalar fields after.
type NCase struct {
	Before []uint64   `json:"before"`
	After  []uint64   `json:"after"`
	Num    int        `json:"num"`
	Nested NestedSpec `json:"nested"`
	// decode side: inflate the declared length beyond the buffer
	Inflate uint64 `json:"inflate,omitempty"`
	// decode side: the target is not fresh but holds this (other) value of the same flavour
	Prior *NestedSpec `json:"prior,omitempty"`
	// encode side (Google v2 runtime-only flavours): the message object held the Prior value, was sized and
	// marshaled through csproto, and was then changed in place to the value under test
	Reused bool `json:"reused,omitempty"`
	// decode side: the decoder is in fast mode
	Fast bool `json:"fast,omitempty"`
}

// requiredUnset: the nested message is a proto2 message whose required fields are unset - its runtime refuses
// to marshal it and refuses to unmarshal the (empty) encoding it would have.
func (n *NestedSpec) requiredUnset() bool {
	return n.Empty && (n.Flavour == "gv2-required" || n.Flavour == "gogo-required" || n.Flavour == "gv2-required-child")
}

// partialPayload: the bytes a message with unset required fields would have (what a lenient writer emits).
func (n *NestedSpec) partialPayload() []byte {
	if n.Flavour != "gv2-required-child" {
		return nil
	}
	m, _ := n.build()
	b, err := proto.MarshalOptions{AllowPartial: true}.Marshal(m.(proto.Message))
	if err != nil {
		panic(err)
	}
	return b
}

func nestedEqual(a, b any) bool {
	switch x := a.(type) {
	case *fmStub:
		return bytes.Equal(x.Payload, b.(*fmStub).Payload)
	case *moStub:
		return bytes.Equal(x.Payload, b.(*moStub).Payload)
	case *durWrap:
		return proto.Equal(x.Duration, b.(*durWrap).Duration)
	case *timestamppb.Timestamp:
		if x == nil { // typed nil encodes as the empty message
			return proto.Equal(&timestamppb.Timestamp{}, b.(proto.Message))
		}
	}
	switch csproto.MsgType(a) {
	case csproto.MessageTypeGoogle:
		return proto.Equal(a.(proto.Message), b.(proto.Message))
	case csproto.MessageTypeGogo:
		return gogo.Equal(a.(gogo.Message), b.(gogo.Message))
	case csproto.MessageTypeGoogleV1:
		return golang.Equal(a.(golang.Message), b.(golang.Message))
	}
	return false
}

func oracleC19(c *NCase) (f *ev.Failure) {
	fl := c.Nested.Flavour
	defer func() {
		if r := recover(); r != nil {
			f = ev.Failf("C19/panic/"+fl, "panic: %v", r)
		}
	}()
	msg, fresh := c.Nested.build()

	// expected bytes: M = csproto.Marshal(m) taken from a second, identically built message
	var M []byte
	if !c.Nested.FailM && !c.Nested.requiredUnset() {
		twin, _ := c.Nested.build()
		var err error
		M, err = csproto.Marshal(twin)
		if err != nil {
			return ev.Failf("C19/marshal-error/"+fl, "csproto.Marshal: %v", err)
		}
	}
	if c.Nested.requiredUnset() {
		M = c.Nested.partialPayload() // decode side: what such a message would have on the wire
	}
	var prefix, suffix []byte
	for i, v := range c.Before {
		prefix = refwire.AppendVarint(refwire.AppendKey(prefix, 100+i, 0), v)
	}
	for i, v := range c.After {
		suffix = refwire.AppendVarint(refwire.AppendKey(suffix, 200+i, 0), v)
	}
	hdr := refwire.AppendVarint(refwire.AppendKey(nil, c.Num, refwire.WTLen), uint64(len(M)))
	want := append(append(append(append([]byte{}, prefix...), hdr...), M...), suffix...)

	// ---- encode side, on an exactly-sized buffer inside a sentinel-filled backing array ----
	total := len(want)
	if c.Nested.FailM || c.Nested.requiredUnset() {
		total += 64 // size is whatever the stub reports; leave room, only error propagation is checked
	}
	var bufs [2][]byte
	for run, fill := range []byte{0xA5, 0x5A} {
		backing := bytes.Repeat([]byte{fill}, total+16)
		buf := backing[:total:total]
		m, _ := c.Nested.build()
		if run == 0 {
			m = msg
		}
		if pm, ok := m.(proto.Message); ok && c.Reused && c.Prior != nil && c.Prior.Flavour == fl && fl != "gv2-nil" {
			// a message object with a history: another value, sized and marshaled, then changed in place
			old, _ := c.Prior.build()
			om := old.(proto.Message)
			_ = csproto.Size(om)
			_, _ = csproto.Marshal(om)
			r := om.ProtoReflect()
			r.Range(func(fd protoreflect.FieldDescriptor, _ protoreflect.Value) bool { r.Clear(fd); return true })
			proto.Merge(om, pm)
			m = om
		}
		e := csproto.NewEncoder(buf)
		for i, v := range c.Before {
			e.EncodeUInt64(100+i, v)
		}
		err := e.EncodeNested(c.Num, m)
		if c.Nested.requiredUnset() {
			if err == nil {
				return ev.Failf("C19/marshal-error-dropped/"+fl, "EncodeNested returned no error for a nested message whose required fields are unset (its runtime refuses to marshal it)")
			}
			break // decode side below: the empty payload such a message would have
		}
		if c.Nested.FailM {
			if !errors.Is(err, errNestedMarshal) {
				return ev.Failf("C19/marshal-error-dropped/"+fl, "EncodeNested returned %v, the nested marshaler failed with %v", err, errNestedMarshal)
			}
			return nil
		}
		if err != nil {
			return ev.Failf("C19/encode-error/"+fl, "EncodeNested: %v", err)
		}
		// the suffix lands right behind the nested message only if the cursor advanced by exactly key+len+M
		for i, v := range c.After {
			e.EncodeUInt64(200+i, v)
		}
		bufs[run] = buf
	}
	if c.Nested.requiredUnset() {
		bufs[0], bufs[1] = want, want
	}
	if !bytes.Equal(bufs[0], bufs[1]) {
		return ev.Failf("C19/slack/"+fl, "buffer not completely written: %x vs %x", bufs[0], bufs[1])
	}
	if !bytes.Equal(bufs[0], want) {
		return ev.Failf("C19/bytes-differ/"+fl, "encoder wrote %.80x, expected prefix|key|len|Marshal(m)|suffix = %.80x", bufs[0], want)
	}

	// ---- decode side ----
	in := want
	if c.Inflate > 0 {
		// same fields but the declared nested length runs past the end of the buffer
		decl := uint64(len(M)+len(suffix)) + c.Inflate
		if c.Inflate >= 1<<62 {
			decl = c.Inflate // (an absolute declared length at the top of the int64 / uint64 range)
		}
		hdr2 := refwire.AppendVarint(refwire.AppendKey(nil, c.Num, refwire.WTLen), decl)
		in = append(append(append(append([]byte{}, prefix...), hdr2...), M...), suffix...)
	}
	d := csproto.NewDecoder(in)
	if c.Fast {
		d.SetMode(csproto.DecoderModeFast)
	}
	for i, v := range c.Before {
		num, wt, err := d.DecodeTag()
		if err != nil || num != 100+i || wt != csproto.WireTypeVarint {
			return ev.Failf("C19/prefix-decode/"+fl, "DecodeTag: %d %v %v", num, wt, err)
		}
		if got, err := d.DecodeUInt64(); err != nil || got != v {
			return ev.Failf("C19/prefix-decode/"+fl, "DecodeUInt64: %d %v", got, err)
		}
	}
	num, wt, err := d.DecodeTag()
	if err != nil || num != c.Num || wt != csproto.WireTypeLengthDelimited {
		cl := ""
		if c.Num >= 1<<26 {
			cl = "/num>=2^26"
		}
		return ev.Failf("C19/tag-decode"+cl, "DecodeTag = (%d,%v,%v), wrote (%d,2)", num, wt, err, c.Num)
	}
	at := d.Offset()
	dst := fresh()
	if c.Prior != nil && c.Prior.Flavour == fl && !c.Nested.FailU {
		dst, _ = c.Prior.build() // a target that has been used before
	}
	err = d.DecodeNested(dst)
	calls := func() int {
		switch s := dst.(type) {
		case *fmStub:
			return s.uCalls
		case *moStub:
			return s.uCalls
		}
		return -1
	}
	if c.Inflate > 0 {
		if err == nil {
			return ev.Failf("C19/length-beyond-buffer-accepted/"+fl, "DecodeNested accepted a declared length %d bytes beyond the buffer", c.Inflate)
		}
		if n := calls(); n > 0 {
			return ev.Failf("C19/nested-invoked-beyond-buffer/"+fl, "declared length beyond the buffer, but the nested decoder was invoked %d time(s)", n)
		}
		return nil
	}
	if c.Nested.requiredUnset() {
		if err == nil {
			return ev.Failf("C19/unmarshal-error-dropped/"+fl, "DecodeNested returned no error for an empty payload although the nested message's runtime refuses it (required fields missing)")
		}
		return nil
	}
	if c.Nested.FailU {
		if !errors.Is(err, errNestedUnmarshal) {
			return ev.Failf("C19/unmarshal-error-dropped/"+fl, "DecodeNested returned %v, the nested decoder failed with %v", err, errNestedUnmarshal)
		}
		return nil
	}
	if err != nil {
		return ev.Failf("C19/decode-error/"+fl, "DecodeNested: %v", err)
	}
	if want := at + refwire.SizeVarint(uint64(len(M))) + len(M); d.Offset() != want {
		return ev.Failf("C19/cursor/"+fl, "DecodeNested advanced the cursor from %d to %d; length prefix + declared length end at %d", at, d.Offset(), want)
	}
	orig, _ := c.Nested.build()
	if !nestedEqual(orig, dst) {
		kind := "message-differs"
		if c.Prior != nil {
			kind = "message-differs-in-reused-target"
		}
		return ev.Failf("C19/"+kind+"/"+fl, "decoded nested message differs from the original: %v vs %v", dst, orig)
	}
	for i, v := range c.After {
		num, wt, err := d.DecodeTag()
		if err != nil || num != 200+i || wt != csproto.WireTypeVarint {
			return ev.Failf("C19/suffix-decode/"+fl, "DecodeTag after the nested field: %d %v %v", num, wt, err)
		}
		if got, err := d.DecodeUInt64(); err != nil || got != v {
			return ev.Failf("C19/suffix-decode/"+fl, "DecodeUInt64 after the nested field: %d %v", got, err)
		}
	}
	if d.More() {
		return ev.Failf("C19/more/"+fl, "data left after reading everything written")
	}
	return nil
}

var c19Flavours = []string{"marshalto", "marshalonly", "gogo", "legacy", "gv2-timestamp", "gv2-duration", "gv2-struct", "gv2-string", "gv2-bytes", "gv2-descriptor", "gv2-nil", "gv2-required", "gogo-required", "gv2-required-child", "marshalonly-wrapper"}

func genNCase(t *rapid.T) *NCase {
	c := &NCase{Num: wiregen.FieldNumber().Draw(t, "num")}
	c.Before = rapid.SliceOfN(wiregen.U64(), 0, 3).Draw(t, "before")
	c.After = rapid.SliceOfN(wiregen.U64(), 0, 3).Draw(t, "after")
	genNested(t, &c.Nested, rapid.SampledFrom(c19Flavours).Draw(t, "flavour"), true)
	n := &c.Nested
	if !n.FailM && !n.FailU && rapid.IntRange(0, 5).Draw(t, "inflate") == 0 {
		c.Inflate = rapid.SampledFrom([]uint64{1, 2, 127, 1 << 20, 1<<31 - 100, 1 << 31, 1 << 40, 1<<64 - 1 - (1 << 30),
			1<<63 - 1, 1<<63 - 2, 1<<63 - 4, 1<<63 - 9, 1<<63 - 11, 1<<63 - 17, 1 << 63, 1<<63 + 5, 1 << 62, 1<<64 - 1}).Draw(t, "infl")
	}
	c.Fast = rapid.Bool().Draw(t, "fastdecoder")
	if n.Flavour != "gv2-nil" && rapid.IntRange(0, 2).Draw(t, "reuse") == 0 {
		c.Prior = &NestedSpec{}
		genNested(t, c.Prior, n.Flavour, false)
		c.Prior.Empty = false
		c.Reused = strings.HasPrefix(n.Flavour, "gv2-") && rapid.Bool().Draw(t, "reusedenc")
	}
	return c
}

func genNested(t *rapid.T, n *NestedSpec, flavour string, mayFail bool) {
	n.Flavour = flavour
	n.Empty = rapid.IntRange(0, 5).Draw(t, "empty") == 0
	n.I = int64(wiregen.U64().Draw(t, "i"))
	n.J = int32(uint32(wiregen.U64().Draw(t, "j")))
	n.S = string(wiregen.UTF8().Draw(t, "s"))
	n.Names = rapid.SliceOfN(rapid.StringMatching("[a-z]{1,6}"), 0, 4).Draw(t, "names")
	switch n.Flavour {
	case "marshalto", "marshalonly":
		if n.Empty {
			n.Payload = []byte{}
		} else {
			n.Payload = wiregen.Encode(nil, wiregen.Fields(1, 4).Draw(t, "payload"))
			if len(n.Payload) == 0 {
				n.Payload = []byte{0x08, 0x01}
			}
		}
		if !n.Empty && rapid.IntRange(0, 5).Draw(t, "big") == 0 {
			// a nested size at a length-prefix limit (the stubs carry their payload verbatim)
			n.Payload = bytes.Repeat([]byte{0x08, 0x01}, 8193)[:rapid.SampledFrom([]int{126, 127, 128, 129, 16382, 16383, 16384, 16385, 16386}).Draw(t, "bigsize")]
		}
		if mayFail {
			switch rapid.IntRange(0, 9).Draw(t, "fail") {
			case 0:
				n.FailM = true
			case 1:
				n.FailU = true
			}
		}
	case "marshalonly-wrapper":
		if mayFail && rapid.IntRange(0, 3).Draw(t, "wfail") == 0 {
			n.FailM = true
		}
	default:
		n.Payload = wiregen.Bytes(false).Draw(t, "b")
		if !n.Empty && rapid.IntRange(0, 5).Draw(t, "big") == 0 {
			// runtime-only flavours: a string / bytes value that puts the nested size around a length-prefix limit
			l := rapid.SampledFrom([]int{120, 123, 124, 125, 126, 127, 128, 16376, 16378, 16379, 16380, 16381, 16382, 16383, 16384}).Draw(t, "biglen")
			n.S = strings.Repeat("s", l)
			n.Payload = bytes.Repeat([]byte{0xab}, l)
		}
	}
}

const ruleC19 = "case = nested message of one of the flavours {MarshalTo stub, Marshal-only stub, Marshal-only wrapper around a Google v2 message (own Marshal method, size from the runtime), plain gogo (descriptor.DescriptorProto), plain pre-APIv2 Google v1 struct with XXX_ methods, plain Google v2 incl. well-known types and typed nil, proto2 message with required fields known only to Google v2 / gogo (unset => its runtime refuses to marshal it and to unmarshal the empty payload), Google v2 message without required fields of its own whose CHILD has unset required fields} x value (incl. empty; nested sizes at the 1-, 2- and 3-byte length-prefix limits, deterministic sweep for the stubs) x decoder mode {safe, fast} x decode target {fresh, already holding another value of the flavour} x encoded object {fresh, Google v2 message that held another value, was sized and marshaled, then changed in place} x 0..3 scalar fields before and after x field number up to 2^29-1 x failing nested marshaler/unmarshaler x declared length inflated beyond the buffer (by 1 .. 2^40, or set to a value at the top of the int64 / uint64 range); " +
	"oracle: exactly-sized sentinel-backed buffer == prefix|key|varint(len M)|M|suffix with M=csproto.Marshal(m); DecodeNested advances by exactly prefix+len, message equal, suffix decodes, nested errors propagate (errors.Is), inflated length is rejected with 0 calls of the nested decoder; " +
	"non-trivial = non-empty nested message in a flavour other than MarshalTo, or a failing stub, or an inflated length; distinct by case content"

func TestC19(t *testing.T) {
	rec := ev.New("C19", ruleC19)
	defer rec.Write()
	defer func() { t.Log(rec.Summary()) }()
	// deterministic sweep: nested sizes at every length-prefix limit x key sizes x the two stub flavours
	shard, shards := ev.Shard()
	idx := 0
	for _, fl := range []string{"marshalto", "marshalonly"} {
		for _, size := range []int{0, 1, 127, 128, 129, 16383, 16384, 16385, 2097151, 2097152, 2097153} {
			for _, num := range []int{1, 15, 16, 2047, 2048, 1<<29 - 1} {
				idx++
				if idx%shards != shard {
					continue
				}
				c := &NCase{Num: num, Before: []uint64{7}, After: []uint64{9}, Nested: NestedSpec{Flavour: fl, PayLen: size, Payload: []byte{}, Empty: size == 0}}
				rec.Eval(1)
				rec.Class("sweep/" + fl)
				rec.NonTrivialEnum(1)
				rec.Check(t, "ncase", c, oracleC19(c))
			}
		}
	}
	ev.Rapid(t, ev.N(24000, 800000), 19, func(rt *rapid.T) {
		c := genNCase(rt)
		rec.Eval(1)
		rec.Class("flavour/" + c.Nested.Flavour)
		if c.Nested.FailM || c.Nested.FailU {
			rec.Class("failing-stub")
		}
		if c.Inflate > 0 {
			rec.Class("inflated-length")
		}
		if c.Nested.Empty {
			rec.Class("empty-nested")
		}
		if c.Prior != nil {
			rec.Class("reused-decode-target")
		}
		if c.Fast {
			rec.Class("decoder-in-fast-mode")
		}
		if c.Reused {
			rec.Class("encoded-message-was-marshaled-before-and-changed-since")
		}
		if c.Nested.requiredUnset() {
			rec.Class("required-fields-unset")
		}
		if (c.Nested.Flavour != "marshalto" && !c.Nested.Empty) || c.Nested.FailM || c.Nested.FailU || c.Inflate > 0 {
			cj, _ := json.Marshal(c)
			rec.NonTrivial(ev.FP(cj))
			rec.Sample("flavour/"+c.Nested.Flavour, c)
		}
		rec.Check(rt, "ncase", c, oracleC19(c))
	})
}
