package wire

import (
	"bytes"
	"encoding/json"
	"fmt"
	"google.golang.org/protobuf/types/known/emptypb"
	"io"
	"math"
	"math/big"
	"runtime"
	"runtime/metrics"
	"testing"

	"github.com/CrowdStrike/csproto"
	"pgregory.net/rapid"

	"verif/harness/internal/ev"
	"verif/harness/internal/refwire"
	"verif/harness/internal/wiregen"
)

// ---- reference model of "the item at the cursor" for every decoder method ----

type dval struct {
	u []uint64
	b []byte
}

func (v dval) equal(o dval) bool {
	if len(v.u) != len(o.u) || !bytes.Equal(v.b, o.b) {
		return false
	}
	for i := range v.u {
		if v.u[i] != o.u[i] {
			return false
		}
	}
	return true
}

// refItem says what a lenient spec-level parser finds at in[off:] for a method.
type refItem struct {
	ok         bool // an item of the requested shape is completely present
	end        int
	val        dval
	lenExceeds bool // a declared length runs past the end of the input
}

type dmethod struct {
	name string
	call func(d *csproto.Decoder) (dval, error)
	ref  func(in []byte, off int) refItem
}

func refVarintItem(conv func(uint64) uint64) func([]byte, int) refItem {
	return func(in []byte, off int) refItem {
		if off >= len(in) {
			return refItem{}
		}
		v, n, err := refwire.Varint(in[off:])
		if err != nil {
			return refItem{}
		}
		return refItem{ok: true, end: off + n, val: dval{u: []uint64{conv(v)}}}
	}
}

func refFixedItem(w int, conv func(uint64) uint64) func([]byte, int) refItem {
	return func(in []byte, off int) refItem {
		if off > len(in) || len(in)-off < w {
			return refItem{}
		}
		var v uint64
		for i := 0; i < w; i++ {
			v |= uint64(in[off+i]) << (8 * uint(i))
		}
		return refItem{ok: true, end: off + w, val: dval{u: []uint64{conv(v)}}}
	}
}

func refLenItem(in []byte, off int) refItem {
	if off >= len(in) {
		return refItem{}
	}
	l, n, err := refwire.Varint(in[off:])
	if err != nil {
		return refItem{}
	}
	if l > uint64(len(in)-off-n) {
		return refItem{lenExceeds: true}
	}
	p := in[off+n : off+n+int(l)]
	return refItem{ok: true, end: off + n + int(l), val: dval{b: append([]byte{}, p...)}}
}

func refPackedVarint(conv func(uint64) uint64) func([]byte, int) refItem {
	return func(in []byte, off int) refItem {
		it := refLenItem(in, off)
		if !it.ok {
			return it
		}
		p := it.val.b
		out := dval{u: []uint64{}}
		for len(p) > 0 {
			v, n, err := refwire.Varint(p)
			if err != nil {
				return refItem{}
			}
			out.u = append(out.u, conv(v))
			p = p[n:]
		}
		return refItem{ok: true, end: it.end, val: out}
	}
}

func refPackedFixed(w int, conv func(uint64) uint64) func([]byte, int) refItem {
	return func(in []byte, off int) refItem {
		it := refLenItem(in, off)
		if !it.ok {
			return it
		}
		p := it.val.b
		if len(p)%w != 0 {
			return refItem{}
		}
		out := dval{u: []uint64{}}
		for len(p) > 0 {
			var v uint64
			for i := 0; i < w; i++ {
				v |= uint64(p[i]) << (8 * uint(i))
			}
			out.u = append(out.u, conv(v))
			p = p[w:]
		}
		return refItem{ok: true, end: it.end, val: out}
	}
}

func cBool(v uint64) uint64 {
	if v != 0 {
		return 1
	}
	return 0
}
func cI32(v uint64) uint64                 { return uint64(int64(int32(uint32(v)))) }
func cU32(v uint64) uint64                 { return uint64(uint32(v)) }
func cID(v uint64) uint64                  { return v }
func cZZ32(v uint64) uint64                { return uint64(int64(refwire.UnZigZag32(v))) }
func cZZ64(v uint64) uint64                { return uint64(refwire.UnZigZag64(v)) }
func u1(v uint64, err error) (dval, error) { return dval{u: []uint64{v}}, err }

func lst[T any](r []T, err error, f func(T) uint64) (dval, error) {
	out := dval{u: make([]uint64, len(r))}
	for i, v := range r {
		out.u[i] = f(v)
	}
	return out, err
}

var dmethods = []dmethod{
	{"DecodeBool", func(d *csproto.Decoder) (dval, error) { b, err := d.DecodeBool(); return u1(cBool(b2u(b)), err) }, refVarintItem(cBool)},
	{"DecodeUInt32", func(d *csproto.Decoder) (dval, error) { v, err := d.DecodeUInt32(); return u1(uint64(v), err) }, refVarintItem(cU32)},
	{"DecodeUInt64", func(d *csproto.Decoder) (dval, error) { v, err := d.DecodeUInt64(); return u1(v, err) }, refVarintItem(cID)},
	{"DecodeInt32", func(d *csproto.Decoder) (dval, error) { v, err := d.DecodeInt32(); return u1(uint64(int64(v)), err) }, refVarintItem(cI32)},
	{"DecodeInt64", func(d *csproto.Decoder) (dval, error) { v, err := d.DecodeInt64(); return u1(uint64(v), err) }, refVarintItem(cID)},
	{"DecodeSInt32", func(d *csproto.Decoder) (dval, error) { v, err := d.DecodeSInt32(); return u1(uint64(int64(v)), err) }, refVarintItem(cZZ32)},
	{"DecodeSInt64", func(d *csproto.Decoder) (dval, error) { v, err := d.DecodeSInt64(); return u1(uint64(v), err) }, refVarintItem(cZZ64)},
	{"DecodeFixed32", func(d *csproto.Decoder) (dval, error) { v, err := d.DecodeFixed32(); return u1(uint64(v), err) }, refFixedItem(4, cID)},
	{"DecodeFixed64", func(d *csproto.Decoder) (dval, error) { v, err := d.DecodeFixed64(); return u1(v, err) }, refFixedItem(8, cID)},
	{"DecodeFloat32", func(d *csproto.Decoder) (dval, error) {
		v, err := d.DecodeFloat32()
		return u1(uint64(math.Float32bits(v)), err)
	}, refFixedItem(4, cID)},
	{"DecodeFloat64", func(d *csproto.Decoder) (dval, error) {
		v, err := d.DecodeFloat64()
		return u1(math.Float64bits(v), err)
	}, refFixedItem(8, cID)},
	{"DecodeBytes", func(d *csproto.Decoder) (dval, error) { b, err := d.DecodeBytes(); return dval{b: b}, err }, refLenItem},
	{"DecodeString", func(d *csproto.Decoder) (dval, error) { s, err := d.DecodeString(); return dval{b: []byte(s)}, err }, refLenItem},
	{"DecodePackedBool", func(d *csproto.Decoder) (dval, error) {
		r, err := d.DecodePackedBool()
		return lst(r, err, b2u)
	}, refPackedVarint(cBool)},
	{"DecodePackedInt32", func(d *csproto.Decoder) (dval, error) {
		r, err := d.DecodePackedInt32()
		return lst(r, err, func(v int32) uint64 { return uint64(int64(v)) })
	}, refPackedVarint(cI32)},
	{"DecodePackedInt64", func(d *csproto.Decoder) (dval, error) {
		r, err := d.DecodePackedInt64()
		return lst(r, err, func(v int64) uint64 { return uint64(v) })
	}, refPackedVarint(cID)},
	{"DecodePackedUint32", func(d *csproto.Decoder) (dval, error) {
		r, err := d.DecodePackedUint32()
		return lst(r, err, func(v uint32) uint64 { return uint64(v) })
	}, refPackedVarint(cU32)},
	{"DecodePackedUint64", func(d *csproto.Decoder) (dval, error) {
		r, err := d.DecodePackedUint64()
		return lst(r, err, cID)
	}, refPackedVarint(cID)},
	{"DecodePackedSint32", func(d *csproto.Decoder) (dval, error) {
		r, err := d.DecodePackedSint32()
		return lst(r, err, func(v int32) uint64 { return uint64(int64(v)) })
	}, refPackedVarint(cZZ32)},
	{"DecodePackedSint64", func(d *csproto.Decoder) (dval, error) {
		r, err := d.DecodePackedSint64()
		return lst(r, err, func(v int64) uint64 { return uint64(v) })
	}, refPackedVarint(cZZ64)},
	{"DecodePackedFixed32", func(d *csproto.Decoder) (dval, error) {
		r, err := d.DecodePackedFixed32()
		return lst(r, err, func(v uint32) uint64 { return uint64(v) })
	}, refPackedFixed(4, cID)},
	{"DecodePackedFixed64", func(d *csproto.Decoder) (dval, error) {
		r, err := d.DecodePackedFixed64()
		return lst(r, err, cID)
	}, refPackedFixed(8, cID)},
	{"DecodePackedFloat32", func(d *csproto.Decoder) (dval, error) {
		r, err := d.DecodePackedFloat32()
		return lst(r, err, func(v float32) uint64 { return uint64(math.Float32bits(v)) })
	}, refPackedFixed(4, cID)},
	{"DecodePackedFloat64", func(d *csproto.Decoder) (dval, error) {
		r, err := d.DecodePackedFloat64()
		return lst(r, err, func(v float64) uint64 { return math.Float64bits(v) })
	}, refPackedFixed(8, cID)},
}

func b2u(b bool) uint64 {
	if b {
		return 1
	}
	return 0
}

// stub nested message: records what it is given
type stubMsg struct {
	got   []byte
	calls int
	fail  bool
}

var errStub = fmt.Errorf("stub unmarshal failure")

func (s *stubMsg) Unmarshal(b []byte) error {
	s.calls++
	s.got = append([]byte{}, b...)
	if s.fail {
		return errStub
	}
	return nil
}

// Op is one decoder call of a program.
type Op struct {
	M      int   `json:"m"`                // index: 0..len(dmethods)-1 = Decode*, then the specials below
	Off    int64 `json:"off,omitempty"`    // Seek offset
	Whence int   `json:"whence,omitempty"` // Seek whence
	Tag    int   `json:"tag,omitempty"`    // Skip tag
	WT     int   `json:"wt,omitempty"`     // Skip wire type
	Auto   int   `json:"auto,omitempty"`   // variant selector for opAuto
}

const (
	opTag = 100 + iota
	opSkip
	opSkipMatching // Skip with the (tag, wt) of the key just before the cursor as found by the reference
	opNested
	opNestedFail
	opNestedRuntime // DecodeNested into a message that only its runtime can decode (no csproto.Unmarshaler)
	opSeek
	opReset
	opModeSafe
	opModeFast
	opMore
	opAuto // DecodeTag, then a method compatible with the wire type found
)

func opName(o Op) string {
	if o.M < len(dmethods) {
		return dmethods[o.M].name
	}
	return map[int]string{opTag: "DecodeTag", opSkip: "Skip", opSkipMatching: "SkipMatching", opNested: "DecodeNested", opNestedFail: "DecodeNested(failing)", opNestedRuntime: "DecodeNested(runtime-only-target)",
		opSeek: "Seek", opReset: "Reset", opModeSafe: "SetMode(safe)", opModeFast: "SetMode(fast)", opMore: "More", opAuto: "Auto"}[o.M]
}

// allocation metering -------------------------------------------------------------------------

var allocSample = []metrics.Sample{{Name: "/gc/heap/allocs:bytes"}}

func allocNow() uint64 {
	metrics.Read(allocSample)
	return allocSample[0].Value.Uint64()
}

func allocBound(inputLen int) uint64 { return 16384 + 64*uint64(inputLen) }

// exactAlloc re-runs f with an exact TotalAlloc bracket; the minimum of three runs removes
// allocations by unrelated goroutines (GC workers, test framework).
func exactAlloc(f func()) uint64 {
	best := ^uint64(0)
	for i := 0; i < 3; i++ {
		var a, b runtime.MemStats
		runtime.ReadMemStats(&a)
		f()
		runtime.ReadMemStats(&b)
		if d := b.TotalAlloc - a.TotalAlloc; d < best {
			best = d
		}
	}
	return best
}

// ---- the interpreter + oracle ----

// DCase is an input plus a program of decoder calls.
type DCase struct {
	In   []byte `json:"in"`
	Prog []Op   `json:"prog"`
}

type dstate struct {
	in   []byte
	d    *csproto.Decoder
	mode csproto.DecoderMode
}

func keyBefore(in []byte, off int) (num, wt int, ok bool) {
	// find a key varint that ends exactly at off (try the 5 possible key lengths)
	for l := 1; l <= 5 && l <= off; l++ {
		v, n, err := refwire.Varint(in[off-l:])
		if err == nil && n == l && (l == 1 || in[off-l] >= 0x80) {
			ok2 := true
			for i := off - l; i < off-1; i++ {
				if in[i] < 0x80 {
					ok2 = false
				}
			}
			if ok2 && v>>3 >= 1 && v>>3 <= refwire.MaxFieldNumber {
				return int(v >> 3), int(v & 7), true
			}
		}
	}
	return 0, 0, false
}

// refSkipValue: where does a value of wire type wt that starts at off end?
func refSkipValue(in []byte, off, wt int) refItem {
	switch wt {
	case 0:
		return refVarintItem(cID)(in, off)
	case 1:
		return refFixedItem(8, cID)(in, off)
	case 5:
		return refFixedItem(4, cID)(in, off)
	case 2:
		return refLenItem(in, off)
	}
	return refItem{}
}

// step executes one op and checks every C03 obligation for it.  It returns the failure and whether
// the op was "interesting" (not a clean valid item).
func (s *dstate) step(o Op, measure bool) (f *ev.Failure, interesting bool) {
	name := opName(o)
	before := s.d.Offset()
	n := len(s.in)
	defer func() {
		if r := recover(); r != nil {
			f = ev.Failf("C03/panic/"+name, "%s at offset %d of %d-byte input %.48x panicked: %v", name, before, n, s.in, r)
		}
		if f == nil {
			if off := s.d.Offset(); off < 0 || off > n {
				f = ev.Failf("C03/cursor-out-of-bounds/"+name, "%s at offset %d: cursor is %d afterwards, input has %d bytes", name, before, off, n)
			}
		}
	}()
	checkItem := func(it refItem, got dval, err error, cmpVal bool) *ev.Failure {
		after := s.d.Offset()
		if err != nil {
			return nil // an error may leave the cursor anywhere in bounds
		}
		if it.lenExceeds {
			return ev.Failf("C03/length-beyond-input-accepted/"+name, "%s at %d: declared length exceeds the remaining input (%d bytes total) but the call succeeded", name, before, n)
		}
		if !it.ok {
			return ev.Failf("C03/accepted-incomplete-item/"+name, "%s at %d of %.48x succeeded but no complete item is there (cursor now %d)", name, before, s.in, after)
		}
		if after != it.end {
			return ev.Failf("C03/cursor-advance/"+name, "%s at %d of %.48x: cursor advanced to %d, the item ends at %d", name, before, s.in, after, it.end)
		}
		if cmpVal && !got.equal(it.val) {
			return ev.Failf("C03/wrong-value/"+name, "%s at %d of %.48x returned %v/%x, the reference reads %v/%x", name, before, s.in, got.u, got.b, it.val.u, it.val.b)
		}
		return nil
	}
	var a0 uint64
	if measure {
		a0 = allocNow()
	}
	var rerun func()
	switch {
	case o.M < len(dmethods):
		m := &dmethods[o.M]
		it := m.ref(s.in, before)
		interesting = !it.ok
		got, err := m.call(s.d)
		if f = checkItem(it, got, err, true); f != nil {
			return
		}
		rerun = func() { d := s.clone(before); _, _ = m.call(d) }
	case o.M == opTag:
		it := refVarintItem(cID)(s.in, before)
		interesting = !it.ok
		num, wt, err := s.d.DecodeTag()
		if f = checkItem(it, dval{}, err, false); f != nil {
			return
		}
		if err == nil {
			k := it.val.u[0]
			if uint64(num) != k>>3 || uint64(wt) != k&7 {
				f = ev.Failf("C03/wrong-value/DecodeTag", "DecodeTag at %d of %.48x = (%d,%d), key is %d", before, s.in, num, wt, k)
				return
			}
		}
	case o.M == opSkip || o.M == opSkipMatching:
		tag, wt := o.Tag, o.WT
		if o.M == opSkipMatching {
			if kn, kw, ok := keyBefore(s.in, before); ok {
				tag, wt = kn, kw
			}
		}
		if tag < 1 {
			tag = 1
		}
		it := refSkipValue(s.in, before, wt)
		interesting = !it.ok || o.M == opSkip
		raw, err := s.d.Skip(tag, csproto.WireType(wt))
		if err == nil && (wt == 3 || wt == 4 || wt > 5 || wt < 0) {
			f = ev.Failf("C03/skip-unsupported-wiretype", "Skip(%d,%d) succeeded", tag, wt)
			return
		}
		if f = checkItem(it, dval{}, err, false); f != nil {
			return
		}
		if err == nil {
			// the returned slice must lie inside the input and end at the cursor
			after := s.d.Offset()
			if len(raw) > after || !bytes.Equal(raw, s.in[after-len(raw):after]) {
				f = ev.Failf("C03/skip-bytes", "Skip(%d,%d) at %d returned %x which is not the input slice ending at the cursor %d", tag, wt, before, raw, after)
				return
			}
			if s.mode == csproto.DecoderModeSafe {
				// documented: in safe mode the key in front of the value is validated against (tag, wt)
				if sz := refwire.SizeKey(tag); before >= sz {
					v, kn, kerr := refwire.Varint(s.in[before-sz:])
					if kerr != nil || kn != sz || v != uint64(tag)<<3|uint64(wt) {
						f = ev.Failf("C03/skip-validation", "safe-mode Skip(%d,%d) at %d of %.48x succeeded although the preceding %d bytes are not that key", tag, wt, before, s.in, sz)
						return
					}
				}
			}
		}
		rerun = func() { d := s.clone(before); _, _ = d.Skip(tag, csproto.WireType(wt)) }
	case o.M == opNested || o.M == opNestedFail:
		it := refLenItem(s.in, before)
		interesting = !it.ok || o.M == opNestedFail
		st := &stubMsg{fail: o.M == opNestedFail}
		err := s.d.DecodeNested(st)
		if it.lenExceeds && st.calls > 0 {
			f = ev.Failf("C03/nested-invoked-beyond-input", "DecodeNested at %d: declared length exceeds the input but the nested decoder was invoked", before)
			return
		}
		if st.fail && st.calls > 0 && err == nil {
			f = ev.Failf("C03/nested-error-dropped", "DecodeNested swallowed the nested decoder's error")
			return
		}
		if f = checkItem(it, dval{b: st.got}, err, true); f != nil {
			return
		}
		if err == nil && st.calls != 1 {
			f = ev.Failf("C03/nested-calls", "DecodeNested succeeded with %d calls of the nested decoder", st.calls)
			return
		}
		rerun = func() { d := s.clone(before); _ = d.DecodeNested(&stubMsg{}) }
	case o.M == opNestedRuntime:
		// the target has no Unmarshal method: csproto asks the owning runtime.  Whether the payload is a message that
		// runtime accepts is its business; the cursor rule is the decoder's: success = advanced by exactly key-less
		// length prefix + payload, and a declared length beyond the input is an error
		it := refLenItem(s.in, before)
		interesting = true
		err := s.d.DecodeNested(&emptypb.Empty{})
		after := s.d.Offset()
		switch {
		case err == nil && !it.ok:
			f = ev.Failf("C03/accepted-incomplete-item/DecodeNested-runtime-target", "DecodeNested(runtime-only target) at %d of %.48x succeeded although no complete length-delimited item starts there", before, s.in)
			return
		case err == nil && after != it.end:
			f = ev.Failf("C03/cursor/DecodeNested-runtime-target", "DecodeNested(runtime-only target) at %d of %.48x succeeded and left the cursor at %d; the item ends at %d", before, s.in, after, it.end)
			return
		}
		rerun = func() { d := s.clone(before); _ = d.DecodeNested(&emptypb.Empty{}) }
	case o.M == opSeek:
		interesting = true
		var base int64
		switch o.Whence {
		case io.SeekStart:
		case io.SeekCurrent:
			base = int64(before)
		case io.SeekEnd:
			base = int64(n)
		}
		target := new(big.Int).Add(big.NewInt(o.Off), big.NewInt(base))
		pos, err := s.d.Seek(o.Off, o.Whence)
		after := s.d.Offset()
		if err == nil {
			if o.Whence < 0 || o.Whence > 2 {
				f = ev.Failf("C03/seek-whence", "Seek(%d,%d) succeeded with an invalid whence", o.Off, o.Whence)
				return
			}
			if !target.IsInt64() || target.Int64() < 0 || target.Int64() > int64(n) {
				f = ev.Failf("C03/seek-out-of-bounds", "Seek(%d,%d) from %d succeeded on a %d-byte input (cursor now %d)", o.Off, o.Whence, before, n, after)
				return
			}
			if int64(after) != target.Int64() || pos != target.Int64() {
				f = ev.Failf("C03/seek-position", "Seek(%d,%d) from %d: cursor %d, returned %d, expected %d", o.Off, o.Whence, before, after, pos, target.Int64())
				return
			}
		} else if after != before {
			f = ev.Failf("C03/seek-moved-on-error", "failed Seek(%d,%d) moved the cursor from %d to %d", o.Off, o.Whence, before, after)
			return
		}
	case o.M == opReset:
		s.d.Reset()
		if s.d.Offset() != 0 {
			f = ev.Failf("C03/reset", "Offset()=%d after Reset", s.d.Offset())
			return
		}
	case o.M == opModeSafe:
		s.d.SetMode(csproto.DecoderModeSafe)
		s.mode = csproto.DecoderModeSafe
	case o.M == opModeFast:
		s.d.SetMode(csproto.DecoderModeFast)
		s.mode = csproto.DecoderModeFast
	case o.M == opMore:
		if s.d.More() != (before < n) {
			f = ev.Failf("C03/more", "More()=%v at %d of %d", s.d.More(), before, n)
			return
		}
	case o.M == opAuto:
		it := refVarintItem(cID)(s.in, before)
		_, wt, err := s.d.DecodeTag()
		if f = checkItem(it, dval{}, err, false); f != nil || err != nil {
			interesting = true
			return
		}
		var cands []int
		for i, m := range dmethods {
			switch wt {
			case 0:
				if i <= 6 {
					cands = append(cands, i)
				}
			case 5:
				if m.name == "DecodeFixed32" || m.name == "DecodeFloat32" {
					cands = append(cands, i)
				}
			case 1:
				if m.name == "DecodeFixed64" || m.name == "DecodeFloat64" {
					cands = append(cands, i)
				}
			case 2:
				if i >= 11 {
					cands = append(cands, i)
				}
			}
		}
		if wt == 2 {
			cands = append(cands, opNested, opSkipMatching)
		}
		if len(cands) == 0 {
			interesting = true
			return s.step(Op{M: opSkipMatching}, measure)
		}
		a := o.Auto
		if a < 0 {
			a = -a
		}
		return s.step(Op{M: cands[a%len(cands)]}, measure)
	}
	if measure && rerun != nil {
		if delta := allocNow() - a0; delta > allocBound(n) {
			// the cheap metric accounts small objects lazily: confirm with an exact bracket on a re-run
			if exact := exactAlloc(rerun); exact > allocBound(n) {
				f = ev.Failf("C03/allocation/"+name, "%s at %d of a %d-byte input %.48x allocated %d bytes (bound %d)", name, before, n, s.in, exact, allocBound(n))
				return
			}
		}
	}
	return
}

func (s *dstate) clone(off int) *csproto.Decoder {
	d := csproto.NewDecoder(s.in)
	d.SetMode(s.mode)
	_, _ = d.Seek(int64(off), io.SeekStart)
	return d
}

func oracleC03(c *DCase) (*ev.Failure, int) {
	// the input is the first len(In) bytes of a LARGER backing array whose spare capacity holds bytes that would
	// complete a truncated item (varint terminators): "reads outside the buffer" becomes a visible wrong answer
	buf := make([]byte, len(c.In), len(c.In)+16)
	copy(buf, c.In)
	spare := buf[len(buf):cap(buf)]
	for i := range spare {
		spare[i] = []byte{0x01, 0x00, 0x7f, 0x02}[i%4]
	}
	s := &dstate{in: buf, d: csproto.NewDecoder(buf)}
	interesting := 0
	for _, o := range c.Prog {
		f, in := s.step(o, true)
		if in {
			interesting++
		}
		if f != nil {
			return f, interesting
		}
	}
	return nil, interesting
}

// ---- generators ----

var c03Alphabet = []byte{0x00, 0x01, 0x02, 0x05, 0x08, 0x0a, 0x0d, 0x09, 0x7f, 0x80, 0x81, 0xff}

// hostile length prefixes
var hostileLens = []uint64{1<<31 - 1, 1 << 31, 1 << 32, 1<<32 + 5, 1 << 40, 1 << 62, 1 << 63, 1<<64 - 1, 1<<63 + 4, 1 << 35,
	// just below 2^63 (cursor + length wraps a signed int), also aligned to the element sizes of the packed fixed kinds
	1<<63 - 1, 1<<63 - 2, 1<<63 - 4, 1<<63 - 8, 1<<63 - 9, 1<<63 - 12, 1<<63 - 16, 1<<63 - 24, 1<<63 - 64, 1<<63 - 128,
	1<<31 - 8, 1<<31 - 4, 1<<32 - 8, 1<<32 - 4, 1<<62 + 8}

func genMutated(t *rapid.T) []byte {
	fs := wiregen.Fields(2, 6).Draw(t, "fields")
	b := wiregen.Encode(nil, fs)
	nm := rapid.IntRange(0, 3).Draw(t, "nmut")
	for i := 0; i < nm; i++ {
		switch rapid.IntRange(0, 7).Draw(t, "mut") {
		case 0: // truncate
			if len(b) > 0 {
				b = b[:rapid.IntRange(0, len(b)-1).Draw(t, "trunc")]
			}
		case 1: // overwrite a byte
			if len(b) > 0 {
				i := rapid.IntRange(0, len(b)-1).Draw(t, "pos")
				b = append([]byte{}, b...)
				b[i] = rapid.SampledFrom([]byte{0x00, 0x7f, 0x80, 0xff, b[i] ^ 1, b[i] ^ 0x80}).Draw(t, "byte")
			}
		case 2: // inflate: insert a hostile length prefix with a length-delimited key
			pos := rapid.IntRange(0, len(b)).Draw(t, "ipos")
			ins := refwire.AppendKey(nil, wiregen.FieldNumber().Draw(t, "inum"), 2)
			ins = refwire.AppendVarint(ins, rapid.SampledFrom(hostileLens).Draw(t, "hl"))
			b = append(append(append([]byte{}, b[:pos]...), ins...), b[pos:]...)
		case 3: // replace the input by a bare hostile length + a little data (packed decoders read this directly)
			ins := refwire.AppendVarint(nil, rapid.SampledFrom(hostileLens).Draw(t, "hl2"))
			b = append(ins, rapid.SliceOfN(rapid.Byte(), 0, 12).Draw(t, "tail")...)
		case 4: // group wire types / field number 0
			pos := rapid.IntRange(0, len(b)).Draw(t, "gpos")
			k := rapid.SampledFrom([]byte{0x0b, 0x0c, 0x00, 0x03, 0x06, 0x07}).Draw(t, "gk")
			b = append(append(append([]byte{}, b[:pos]...), k), b[pos:]...)
		case 5: // non-minimal varint
			pos := rapid.IntRange(0, len(b)).Draw(t, "npos")
			pad := rapid.IntRange(1, 10).Draw(t, "pad")
			ins := []byte{}
			for j := 0; j < pad; j++ {
				ins = append(ins, 0x80)
			}
			ins = append(ins, rapid.SampledFrom([]byte{0x00, 0x01, 0x7f}).Draw(t, "last"))
			b = append(append(append([]byte{}, b[:pos]...), ins...), b[pos:]...)
		case 6: // splice
			o := wiregen.Encode(nil, wiregen.Fields(1, 3).Draw(t, "other"))
			if len(o) > 0 && len(b) > 0 {
				b = append(append([]byte{}, b[:rapid.IntRange(0, len(b)).Draw(t, "s1")]...), o[rapid.IntRange(0, len(o)-1).Draw(t, "s2"):]...)
			}
		case 7: // short length-prefixed run of fixed-width garbage (packed fixed/float with odd sizes)
			l := rapid.IntRange(0, 20).Draw(t, "pl")
			declared := l + rapid.SampledFrom([]int{0, 0, 1, -1, 3, 4, 8}).Draw(t, "pd")
			if declared < 0 {
				declared = 0
			}
			b = append(refwire.AppendVarint(nil, uint64(declared)), rapid.SliceOfN(rapid.Byte(), l, l).Draw(t, "pdata")...)
		}
	}
	return b
}

func genOp(t *rapid.T) Op {
	switch rapid.IntRange(0, 9).Draw(t, "opclass") {
	case 0, 1, 2:
		return Op{M: opAuto, Auto: rapid.IntRange(0, 63).Draw(t, "auto")}
	case 3, 4:
		return Op{M: rapid.IntRange(0, len(dmethods)-1).Draw(t, "m")}
	case 5:
		return Op{M: rapid.SampledFrom([]int{opTag, opNested, opNestedFail, opNestedRuntime, opSkipMatching, opMore}).Draw(t, "special")}
	case 6:
		return Op{M: opSkip, Tag: wiregen.FieldNumber().Draw(t, "stag"), WT: rapid.IntRange(0, 7).Draw(t, "swt")}
	case 7, 8:
		off := rapid.OneOf(rapid.Int64Range(-4, 40), rapid.SampledFrom([]int64{math.MaxInt64, math.MinInt64, math.MaxInt64 - 1, 1 << 32, -(1 << 32), math.MaxInt32, math.MinInt32})).Draw(t, "soff")
		return Op{M: opSeek, Off: off, Whence: rapid.SampledFrom([]int{0, 0, 1, 1, 2, 2, 3, -1}).Draw(t, "whence")}
	default:
		return Op{M: rapid.SampledFrom([]int{opReset, opModeSafe, opModeFast}).Draw(t, "ctl")}
	}
}

const ruleC03 = "(a) exhaustive: every byte string of length <= 4 (quick) / <= 5 (thorough) over the wire-significant alphabet {00,01,02,05,08,0a,0d,09,7f,80,81,ff} x every exported Decode*/DecodePacked*/DecodeNested (stub target, failing stub, runtime-only target)/DecodeTag/Skip(matching and non-matching) x every start offset x {safe, fast}; " +
	"(every input is handed over as buf[:n] of a larger array whose spare capacity holds varint terminators) (b) rapid: a mutated valid encoding (truncation, byte overwrite, hostile length prefixes up to 2^64-1, group wire types, field number 0, non-minimal varints, splices) + a program of <= 20 decoder calls incl. Seek(any int64, any whence), Reset, SetMode; " +
	"oracle per call: no panic, cursor in [0,len], success => cursor advanced by exactly the reference item's length and value equal, declared length beyond input => error, bytes allocated by the call <= 16 KiB + 64*len(input); " +
	"non-trivial = the input at the cursor is not a clean complete item for the method called, or the program contains a Seek/mode switch; distinct by (input, program) or (input, method, offset, mode)"

func TestC03(t *testing.T) {
	rec := ev.New("C03", ruleC03)
	defer rec.Write()
	defer func() { t.Log(rec.Summary()) }()
	rec.Assume("allocation is metered with runtime/metrics per call and confirmed with an exact runtime.MemStats bracket on a re-run before it is reported")

	// (a) exhaustive
	maxLen := 4
	if ev.Thorough() {
		maxLen = 5
	}
	shard, shards := ev.Shard()
	idx := 0
	stop := false
	skipVariants := []Op{{M: opSkipMatching}, {M: opSkip, Tag: 1, WT: 0}, {M: opSkip, Tag: 1, WT: 2}, {M: opSkip, Tag: 16, WT: 5}, {M: opSkip, Tag: 1, WT: 1}, {M: opSkip, Tag: 1, WT: 3}, {M: opSkip, Tag: 1, WT: 7}}
	var ops []Op
	for i := range dmethods {
		ops = append(ops, Op{M: i})
	}
	ops = append(ops, Op{M: opTag}, Op{M: opNested}, Op{M: opNestedFail}, Op{M: opNestedRuntime})
	ops = append(ops, skipVariants...)
	var walk func(prefix []byte)
	walk = func(prefix []byte) {
		if stop {
			return
		}
		idx++
		if idx%shards == shard {
			in := append([]byte{}, prefix...)
			rec.Journal("dcase-enum", map[string]any{"in": in})
			var calls, nt int64
			for off := 0; off <= len(in) && !stop; off++ {
				for mode := 0; mode < 2 && !stop; mode++ {
					for _, o := range ops {
						s := &dstate{in: in, d: csproto.NewDecoder(in)}
						_, _ = s.d.Seek(int64(off), io.SeekStart)
						if mode == 1 {
							s.d.SetMode(csproto.DecoderModeFast)
							s.mode = csproto.DecoderModeFast
						}
						f, interesting := s.step(o, true)
						calls++
						if interesting {
							nt++
						}
						if f != nil {
							c := &DCase{In: in, Prog: []Op{{M: opSeek, Off: int64(off)}, {M: map[int]int{0: opModeSafe, 1: opModeFast}[mode]}, o}}
							if rec.Check(t, "dcase", c, f) || rec.KnownMatch(f.Sig) == nil {
								stop = true
								break
							}
						}
					}
				}
			}
			rec.Eval(calls)
			rec.NonTrivialEnum(nt)
			rec.ClassN("exhaustive/calls", calls)
			rec.ClassN("exhaustive/inputs", 1)
			if len(in) == maxLen {
				rec.Sample("exhaustive", map[string]any{"in_hex": fmt.Sprintf("%x", in), "methods": len(ops), "offsets": len(in) + 1, "modes": 2})
			}
		}
		if len(prefix) == maxLen {
			return
		}
		for _, a := range c03Alphabet {
			walk(append(prefix, a))
		}
	}
	walk(nil)
	rec.Extra("exhaustive_strings", fmt.Sprintf("all byte strings of length <= %d over a 12-symbol alphabet x %d method variants x every offset x 2 modes", maxLen, len(ops)))
	if stop {
		return
	}

	// (b) programs
	ev.Rapid(t, ev.N(40000, 1500000), 4, func(rt *rapid.T) {
		c := &DCase{In: genMutated(rt)}
		n := rapid.IntRange(1, 20).Draw(rt, "nops")
		for i := 0; i < n; i++ {
			c.Prog = append(c.Prog, genOp(rt))
		}
		rec.Journal("dcase", c)
		f, interesting := oracleC03(c)
		rec.Eval(int64(len(c.Prog)))
		hasSeek := false
		for _, o := range c.Prog {
			if o.M == opSeek || o.M == opModeFast || o.M == opModeSafe {
				hasSeek = true
			}
			rec.Class("program-op/" + opName(o))
		}
		if interesting > 0 {
			rec.Class("program/with-malformed-item")
		}
		if interesting > 0 || hasSeek {
			pj, _ := json.Marshal(c.Prog)
			rec.NonTrivial(ev.FP("prog", c.In, pj))
			rec.Sample("program", map[string]any{"in_hex": fmt.Sprintf("%.80x", c.In), "in_len": len(c.In), "prog": progNames(c.Prog)})
		}
		rec.Check(rt, "dcase", c, f)
	})
	rec.JournalClear()
}

func progNames(p []Op) []string {
	out := make([]string, len(p))
	for i, o := range p {
		out[i] = opName(o)
		if o.M == opSeek {
			out[i] = fmt.Sprintf("Seek(%d,%d)", o.Off, o.Whence)
		}
		if o.M == opSkip {
			out[i] = fmt.Sprintf("Skip(%d,%d)", o.Tag, o.WT)
		}
	}
	return out
}
