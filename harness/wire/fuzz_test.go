package wire

import (
	"testing"

	"verif/harness/internal/ev"
	"verif/harness/internal/refwire"
)

// FuzzC03 drives the C03 oracle with coverage guidance.  Layout of the fuzz input: byte 0 = number of
// ops (1..8), then 3 bytes per op (selector, argument, argument), the rest is the decoder's input.
func FuzzC03(f *testing.F) {
	valid := refwire.AppendLen(refwire.AppendKey(refwire.AppendVarint(refwire.AppendKey(nil, 1, 0), 300), 2, 2), []byte("hello"))
	seeds := [][]byte{
		append([]byte{2, 110, 0, 0, 110, 1, 0}, valid...),
		{1, 22, 0, 0, 0xff, 0xff, 0xff, 0xff, 0xff, 0xff, 0xff, 0xff, 0xff, 0x01, 1, 2, 3}, // packed float32, length 2^64-1
		{1, 23, 0, 0, 0x80, 0x80, 0x80, 0x80, 0x80, 0x80, 0x80, 0x80, 0x80, 0x01, 0},       // packed float64, length 2^63
		{1, 11, 0, 0, 0xff, 0xff, 0xff, 0xff, 0x07, 1},                                     // bytes, length 2^31-1
		{1, 11, 0, 0, 0x80, 0x80, 0x80, 0x80, 0x10, 1},                                     // bytes, length 2^32
		{1, 9, 0, 0, 1, 2}, // truncated float32
		{3, 105, 250, 2, 101, 1, 2, 110, 7, 0, 0x0a, 0x03, 1, 2, 3},                    // Seek, Skip, Auto
		{1, 0, 0, 0, 0xff, 0xff, 0xff, 0xff, 0xff, 0xff, 0xff, 0xff, 0xff, 0xff, 0xff}, // eleven 0xff
	}
	for _, s := range seeds {
		f.Add(s)
	}
	f.Fuzz(func(t *testing.T, data []byte) {
		if len(data) < 1 {
			return
		}
		n := int(data[0]%8) + 1
		data = data[1:]
		c := &DCase{}
		for i := 0; i < n && len(data) >= 3; i++ {
			sel, a, b := int(data[0]), int(data[1]), int(data[2])
			data = data[3:]
			var op Op
			switch {
			case sel < len(dmethods):
				op = Op{M: sel}
			case sel < 100:
				op = Op{M: opAuto, Auto: a}
			case sel <= opAuto:
				op = Op{M: sel, Off: int64(int8(a))*int64(b%7+1) - 1, Whence: b % 4, Tag: a*b + 1, WT: b % 8, Auto: a}
			default:
				op = Op{M: opAuto, Auto: sel}
			}
			c.Prog = append(c.Prog, op)
		}
		c.In = append([]byte{}, data...)
		fl, _ := oracleC03(c)
		ev.FuzzCheck(t, "C03", "dcase", c, fl)
	})
}
