package wire

import (
	"bytes"
	"encoding/json"
	"fmt"
	"os"
	"testing"

	"github.com/CrowdStrike/csproto"
	"google.golang.org/protobuf/encoding/protowire"
	"pgregory.net/rapid"

	"verif/harness/internal/ev"
	"verif/harness/internal/refwire"
	"verif/harness/internal/wiregen"
)

// WCase is one encode/decode case of the hand-written codec (C01, C02).
type WCase struct {
	Kind   string   `json:"kind"`
	Num    int      `json:"num"`
	Mode   int      `json:"mode"` // 0 safe, 1 fast
	Vals   []uint64 `json:"vals,omitempty"`
	Data   []byte   `json:"data,omitempty"`
	Second *WCase   `json:"second,omitempty"` // a second field written right after with the same encoder
}

func (c *WCase) summary() map[string]any {
	m := map[string]any{"kind": c.Kind, "num": c.Num, "mode": c.Mode}
	if len(c.Vals) > 6 {
		m["vals_head"] = c.Vals[:6]
		m["nvals"] = len(c.Vals)
	} else if c.Vals != nil {
		m["vals"] = c.Vals
	}
	if c.Data != nil {
		m["data_len"] = len(c.Data)
		if len(c.Data) <= 16 {
			m["data_hex"] = fmt.Sprintf("%x", c.Data)
		}
	}
	if c.Second != nil {
		m["second"] = c.Second.summary()
	}
	return m
}

// predicted size of the whole field computed ONLY from csproto's exported size helpers, the way
// a caller (and generated code) pre-sizes a buffer.
func predictedSize(k *kind, c *WCase) int {
	switch {
	case k.isLen:
		return csproto.SizeOfTagKey(c.Num) + csproto.SizeOfVarint(uint64(len(c.Data))) + len(c.Data)
	case k.packed:
		if len(c.Vals) == 0 {
			return 0
		}
		p := 0
		for _, v := range c.Vals {
			p += k.size(k.norm(v))
		}
		return csproto.SizeOfTagKey(c.Num) + csproto.SizeOfVarint(uint64(p)) + p
	default:
		return csproto.SizeOfTagKey(c.Num) + k.size(k.norm(c.Vals[0]))
	}
}

// reference encoding of the whole field with refwire
func refEncode(k *kind, c *WCase) []byte {
	var out []byte
	switch {
	case k.isLen:
		out = refwire.AppendKey(out, c.Num, refwire.WTLen)
		out = refwire.AppendLen(out, c.Data)
	case k.packed:
		if len(c.Vals) == 0 {
			return nil
		}
		var p []byte
		for _, v := range c.Vals {
			p = k.ref(p, k.norm(v))
		}
		out = refwire.AppendKey(out, c.Num, refwire.WTLen)
		out = refwire.AppendLen(out, p)
	default:
		out = refwire.AppendKey(out, c.Num, k.wt)
		out = k.ref(out, k.norm(c.Vals[0]))
	}
	return out
}

// second reference: protowire
func pwEncode(k *kind, c *WCase) []byte {
	var out []byte
	switch {
	case k.isLen:
		out = protowire.AppendTag(out, protowire.Number(c.Num), protowire.BytesType)
		out = protowire.AppendBytes(out, c.Data)
	case k.packed:
		if len(c.Vals) == 0 {
			return nil
		}
		var p []byte
		for _, v := range c.Vals {
			p = pwValue(k, p, k.norm(v))
		}
		out = protowire.AppendTag(out, protowire.Number(c.Num), protowire.BytesType)
		out = protowire.AppendBytes(out, p)
	default:
		out = protowire.AppendTag(out, protowire.Number(c.Num), protowire.Type(k.wt))
		out = pwValue(k, out, k.norm(c.Vals[0]))
	}
	return out
}

func encodeInto(k *kind, e *csproto.Encoder, c *WCase) {
	switch {
	case k.isLen:
		k.encB(e, c.Num, c.Data)
	case k.packed:
		vs := make([]uint64, len(c.Vals))
		for i, v := range c.Vals {
			vs[i] = k.norm(v)
		}
		k.encP(e, c.Num, vs)
	default:
		k.enc(e, c.Num, k.norm(c.Vals[0]))
	}
}

func valueClass(k *kind, c *WCase) string {
	cl := ""
	if c.Num >= 1<<26 {
		cl = "num>=2^26"
	}
	neg := false
	for _, v := range c.Vals {
		if int64(k.norm(v)) < 0 {
			neg = true
		}
	}
	if neg {
		if cl != "" {
			cl += ","
		}
		cl += "negative"
	}
	if cl == "" {
		cl = "plain"
	}
	return cl
}

// decodeAndCompare reads one field back and compares with what was written.
func decodeAndCompare(prop string, k *kind, d *csproto.Decoder, c *WCase, start, size int) *ev.Failure {
	if !k.isLen && k.packed && len(c.Vals) == 0 {
		if d.Offset() != start {
			return ev.Failf(prop+"/cursor/"+k.name, "cursor moved for empty packed list")
		}
		return nil
	}
	num, wt, err := d.DecodeTag()
	if err != nil {
		return ev.Failf(prop+"/tag-rejected/"+valueClass(k, c), "DecodeTag(num=%d): %v", c.Num, err)
	}
	wantWT := k.wt
	if k.packed || k.isLen {
		wantWT = refwire.WTLen
	}
	if num != c.Num || int(wt) != wantWT {
		return ev.Failf(prop+"/tag-mismatch/"+k.name, "DecodeTag = (%d,%d), wrote (%d,%d)", num, wt, c.Num, wantWT)
	}
	switch {
	case k.isLen:
		got, err := k.decB(d)
		if err != nil {
			return ev.Failf(prop+"/decode-error/"+k.name, "decode: %v", err)
		}
		if !bytes.Equal(got, c.Data) {
			return ev.Failf(prop+"/value-mismatch/"+k.name, "got %d bytes %.32x, wrote %d bytes %.32x", len(got), got, len(c.Data), c.Data)
		}
	case k.packed:
		got, err := k.decP(d)
		if err != nil {
			return ev.Failf(prop+"/decode-error/"+k.name+"/"+valueClass(k, c), "decode: %v", err)
		}
		if len(got) != len(c.Vals) {
			return ev.Failf(prop+"/value-mismatch/"+k.name, "got %d elements, wrote %d", len(got), len(c.Vals))
		}
		for i := range got {
			if got[i] != k.norm(c.Vals[i]) {
				return ev.Failf(prop+"/value-mismatch/"+k.name, "element %d: got %#x wrote %#x", i, got[i], k.norm(c.Vals[i]))
			}
		}
	default:
		got, err := k.dec(d)
		if err != nil {
			return ev.Failf(prop+"/decode-error/"+k.name+"/"+valueClass(k, c), "decode: %v", err)
		}
		if got != k.norm(c.Vals[0]) {
			return ev.Failf(prop+"/value-mismatch/"+k.name, "got %#x wrote %#x", got, k.norm(c.Vals[0]))
		}
	}
	if d.Offset() != start+size {
		return ev.Failf(prop+"/cursor/"+k.name, "Offset()=%d after reading a field of %d bytes at %d", d.Offset(), size, start)
	}
	return nil
}

// encodeExact writes the case (and its second field) into an exactly-sized buffer carved out of
// a larger backing array filled with fill.  Overruns panic (cap-limited slice) and are caught.
func encodeExact(c *WCase, total int, fill byte) (buf []byte, panicked any) {
	backing := make([]byte, total+16)
	for i := range backing {
		backing[i] = fill
	}
	buf = backing[:total:total]
	defer func() {
		if r := recover(); r != nil {
			panicked = r
		}
	}()
	e := csproto.NewEncoder(buf)
	for cc := c; cc != nil; cc = cc.Second {
		encodeInto(kindByName(cc.Kind), e, cc)
	}
	return buf, nil
}

// oracleC01: round trip with a size ledger.
func oracleC01(c *WCase) (f *ev.Failure) {
	defer func() {
		if r := recover(); r != nil {
			f = ev.Failf("C01/panic/"+c.Kind, "panic: %v", r)
		}
	}()
	total := 0
	for cc := c; cc != nil; cc = cc.Second {
		k := kindByName(cc.Kind)
		sz := predictedSize(k, cc)
		// size helpers against the two references
		if want := len(refEncode(k, cc)); sz != want {
			return ev.Failf("C01/size-mismatch/"+k.name, "size helpers predict %d bytes, canonical encoding has %d", sz, want)
		}
		total += sz
	}
	bufA, p := encodeExact(c, total, 0xA5)
	if p != nil {
		return ev.Failf("C01/overrun/"+c.Kind, "encoder panicked on a buffer sized from the size helpers (%d bytes): %v", total, p)
	}
	bufB, p := encodeExact(c, total, 0x5A)
	if p != nil {
		return ev.Failf("C01/overrun/"+c.Kind, "encoder panicked (2nd run): %v", p)
	}
	// a byte the encoder did not write keeps the fill value, which differs between the runs
	if !bytes.Equal(bufA, bufB) {
		return ev.Failf("C01/slack/"+c.Kind, "buffer sized from the size helpers (%d bytes) was not filled: %x vs %x", total, bufA, bufB)
	}
	d := csproto.NewDecoder(bufA)
	if c.Mode == 1 {
		d.SetMode(csproto.DecoderModeFast)
	}
	start := 0
	for cc := c; cc != nil; cc = cc.Second {
		k := kindByName(cc.Kind)
		sz := predictedSize(k, cc)
		if f := decodeAndCompare("C01", k, d, cc, start, sz); f != nil {
			return f
		}
		start += sz
	}
	if d.More() {
		return ev.Failf("C01/more/"+c.Kind, "More() is true after reading everything written (offset %d of %d)", d.Offset(), total)
	}
	return nil
}

// sizeHelpersAgree compares the closed forms with both references for one value / number.
func sizeHelpersAgree(v uint64, num int) *ev.Failure {
	if a, b, c := csproto.SizeOfVarint(v), refwire.SizeVarint(v), protowire.SizeVarint(v); a != b || b != c {
		if b != c {
			panic(fmt.Sprintf("harness: references disagree on SizeVarint(%d): %d vs %d", v, b, c))
		}
		return ev.Failf("C01/size-helper/SizeOfVarint", "SizeOfVarint(%#x)=%d, reference %d", v, a, b)
	}
	if a, b := csproto.SizeOfZigZag(v), refwire.SizeVarint(refwire.ZigZag64(int64(v))); a != b {
		return ev.Failf("C01/size-helper/SizeOfZigZag", "SizeOfZigZag(%#x)=%d, reference %d", v, a, b)
	}
	if a, b, c := csproto.SizeOfTagKey(num), refwire.SizeKey(num), protowire.SizeTag(protowire.Number(num)); a != b || b != c {
		if b != c {
			panic("harness: references disagree on key size")
		}
		return ev.Failf("C01/size-helper/SizeOfTagKey", "SizeOfTagKey(%d)=%d, reference %d", num, a, b)
	}
	return nil
}

func nontrivialW(k *kind, c *WCase) bool {
	if c.Num >= 16 || len(c.Vals) >= 2 || len(c.Data) > 0 {
		return true
	}
	for _, v := range c.Vals {
		if k.norm(v) != 0 {
			return true
		}
	}
	return false
}

func fpW(c *WCase) uint64 {
	parts := []any{}
	for cc := c; cc != nil; cc = cc.Second {
		k := kindByName(cc.Kind)
		parts = append(parts, cc.Kind, cc.Num, cc.Mode, cc.Data)
		for _, v := range cc.Vals {
			parts = append(parts, k.norm(v))
		}
	}
	return ev.FP(parts...)
}

func genValsFor(t *rapid.T, k *kind, label string) uint64 {
	switch k.name {
	case "float", "packed-float":
		if rapid.Bool().Draw(t, label+"fb") {
			return rapid.SampledFrom(wiregen.FloatBits32()).Draw(t, label+"f32")
		}
	case "double", "packed-double":
		if rapid.Bool().Draw(t, label+"fb") {
			return rapid.SampledFrom(wiregen.FloatBits64()).Draw(t, label+"f64")
		}
	}
	return wiregen.U64().Draw(t, label)
}

func genWCase(t *rapid.T, allowSecond bool, big bool) *WCase {
	k := rapid.SampledFrom(kinds).Draw(t, "kind")
	c := &WCase{Kind: k.name, Num: wiregen.FieldNumber().Draw(t, "num"), Mode: rapid.IntRange(0, 1).Draw(t, "mode")}
	switch {
	case k.isLen:
		if k.name == "string" {
			c.Data = wiregen.UTF8().Draw(t, "str")
		} else {
			c.Data = wiregen.Bytes(big).Draw(t, "bytes")
		}
		if c.Data == nil {
			c.Data = []byte{}
		}
	case k.packed:
		n := rapid.SampledFrom([]int{0, 1, 1, 2, 2, 3, 5, 16, 17, 127, 128, 129, 300}).Draw(t, "plen")
		if rapid.Bool().Draw(t, "plenany") {
			n = rapid.IntRange(0, 40).Draw(t, "plenu") // every short length: the payload crosses the 1-byte length prefix limit somewhere in here
		}
		// value regime of the list: mixed widths, every element as wide as the kind allows (negative / all-ones),
		// every element one byte wide - the payload size, and with it the length prefix, depends on it
		regime := rapid.SampledFrom([]string{"mixed", "mixed", "widest", "narrowest"}).Draw(t, "pregime")
		elem := func() uint64 {
			switch regime {
			case "widest":
				return ^uint64(rapid.IntRange(0, 1000).Draw(t, "pw"))
			case "narrowest":
				return uint64(rapid.IntRange(0, 63).Draw(t, "pn"))
			}
			return genValsFor(t, k, "pv")
		}
		if n > 40 {
			// long lists: a few drawn values repeated
			base := make([]uint64, 3)
			for i := range base {
				base[i] = elem()
			}
			c.Vals = make([]uint64, n)
			for i := range c.Vals {
				c.Vals[i] = base[i%3] + uint64(i/3)
			}
		} else {
			c.Vals = make([]uint64, n)
			for i := range c.Vals {
				c.Vals[i] = elem()
			}
		}
	default:
		c.Vals = []uint64{genValsFor(t, k, "v")}
	}
	if allowSecond && rapid.IntRange(0, 2).Draw(t, "second") == 0 {
		c.Second = genWCase(t, false, false)
		c.Second.Mode = c.Mode
	}
	return c
}

// sweepCases enumerates the deterministic boundary sweep (kinds x numbers x boundary values x mode).
func sweepCases(yield func(*WCase)) {
	nums := wiregen.FieldNumbers()
	bvals := wiregen.BoundaryU64()
	for _, k := range kinds {
		vals := bvals
		switch k.name {
		case "float", "packed-float":
			vals = append(append([]uint64{}, wiregen.FloatBits32()...), bvals[:40]...)
		case "double", "packed-double":
			vals = append(append([]uint64{}, wiregen.FloatBits64()...), bvals[:40]...)
		case "bool", "packed-bool":
			vals = []uint64{0, 1}
		}
		for _, num := range nums {
			for mode := 0; mode < 2; mode++ {
				switch {
				case k.isLen:
					lens := []int{0, 1, 2, 7, 8, 9, 127, 128, 16383, 16384}
					if num == nums[0] || num == nums[len(nums)-1] || num == 1<<25 {
						lens = append(lens, 1<<21-1, 1<<21) // 4-byte length prefix (with a 1- and a 5-byte key)
					}
					for _, l := range lens {
						data := bytes.Repeat([]byte{'x'}, l)
						yield(&WCase{Kind: k.name, Num: num, Mode: mode, Data: data})
					}
				case k.packed:
					yield(&WCase{Kind: k.name, Num: num, Mode: mode, Vals: []uint64{}})
					if num == nums[0] || num == nums[len(nums)-1] {
						// payload-size sweep: every list length whose payload lies around the 1- and 2-byte
						// length-prefix limits (128, 16384 bytes) for elements 1, 2, 4, 5, 8 and 10 bytes wide,
						// with every element as wide as the kind allows and with every element one byte wide
						for _, regime := range []uint64{^uint64(0), 1} {
							for _, n := range packedSweepLens {
								vs := make([]uint64, n)
								for j := range vs {
									vs[j] = regime - uint64(j%3)*(regime&2) // all-ones, all-ones-2, ... / 1
								}
								yield(&WCase{Kind: k.name, Num: num, Mode: mode, Vals: vs})
							}
						}
					}
					for i, v := range vals {
						yield(&WCase{Kind: k.name, Num: num, Mode: mode, Vals: []uint64{v}})
						if i%8 == 0 {
							yield(&WCase{Kind: k.name, Num: num, Mode: mode, Vals: []uint64{v, vals[(i+1)%len(vals)], vals[(i+7)%len(vals)]}})
						}
					}
				default:
					for _, v := range vals {
						yield(&WCase{Kind: k.name, Num: num, Mode: mode, Vals: []uint64{v}})
					}
				}
			}
		}
	}
}

// packedSweepLens: 0..140 and the element counts at which a payload of 1-, 2-, 4-, 5-, 8- or 10-byte elements
// crosses 16384 bytes.
var packedSweepLens = func() []int {
	var out []int
	for n := 0; n <= 140; n++ {
		out = append(out, n)
	}
	for _, w := range []int{10, 8, 5, 4, 2, 1} {
		for n := 16384/w - 2; n <= 16384/w+2; n++ {
			out = append(out, n)
		}
	}
	return out
}()

func runWCases(t *testing.T, rec *ev.Recorder, test string, oracle func(*WCase) *ev.Failure, nRandom int, salt uint64) {
	i, n := ev.Shard()
	idx := 0
	sweepCases(func(c *WCase) {
		idx++
		if idx%n != i {
			return
		}
		k := kindByName(c.Kind)
		rec.Eval(1)
		rec.Class("sweep/" + classOfKind(k))
		if nontrivialW(k, c) {
			rec.NonTrivial(fpW(c))
		}
		rec.Sample("sweep/"+c.Kind, c.summary())
		if f := oracle(c); f != nil {
			rec.Check(t, test, c, f)
		}
	})
	ev.Rapid(t, nRandom, salt, func(rt *rapid.T) {
		c := genWCase(rt, true, ev.Thorough())
		k := kindByName(c.Kind)
		rec.Eval(1)
		rec.Class("random/" + classOfKind(k))
		if c.Second != nil {
			rec.Class("random/with-second-field")
		}
		if c.Num >= 1<<26 {
			rec.Class("random/num>=2^26")
		}
		if nontrivialW(k, c) {
			rec.NonTrivial(fpW(c))
		}
		rec.Sample("random/"+classOfKind(k), c.summary())
		rec.Check(rt, test, c, oracle(c))
	})
}

func classOfKind(k *kind) string {
	switch {
	case k.isLen:
		return "len-delimited"
	case k.packed:
		return "packed"
	case k.wt == 0:
		return "varint"
	default:
		return "fixed"
	}
}

const ruleC01 = "case = (kind in 15 scalar kinds + 13 packed kinds, field number, value or list, decoder mode, optional second field); " +
	"deterministic boundary sweep (every bit-length class +-1, both signs, NaN payloads, lengths at varint boundaries x key-size boundary numbers x mode; for every packed kind every list length 0..140 and the lengths at which the payload crosses 16384 bytes, with all-widest and all-narrowest elements) plus rapid-random cases; " +
	"thorough adds exhaustive enumerations (all 2^32 values of each 32-bit kind at numbers 1 and 2^29-1; all field numbers x 4 wire types), counted as distinct by construction; " +
	"non-trivial = value != zero value, or key longer than one byte, or list length >= 2, or non-empty payload; distinct by (kind, number, mode, value bytes)"

func TestC01(t *testing.T) {
	rec := ev.New("C01", ruleC01)
	defer rec.Write()
	defer func() { t.Log(rec.Summary()) }()
	// size helpers on every boundary
	for _, v := range wiregen.BoundaryU64() {
		for _, n := range wiregen.FieldNumbers() {
			rec.Eval(1)
			if f := sizeHelpersAgree(v, n); f != nil {
				rec.Check(t, "size", map[string]any{"v": v, "num": n}, f)
			}
		}
	}
	runWCases(t, rec, "wcase", oracleC01, ev.N(60000, 4000000), 1)
	if ev.Thorough() {
		enumerate32(t, rec, "C01")
		enumerateTags(t, rec, "C01")
	}
}

// ---- exhaustive enumerations (thorough tier) ----

// enumerate32 runs all 2^32 values of every singular 32-bit kind at field numbers 1 and 2^29-1
// through encode -> compare with reference bytes -> decode, sharded by value range.
func enumerate32(t *testing.T, rec *ev.Recorder, prop string) {
	shard, shards := ev.Shard()
	span := uint64(1) << 32
	if os.Getenv("VERIF_ENUM_BITS") != "" { // development only
		var b uint
		fmt.Sscan(os.Getenv("VERIF_ENUM_BITS"), &b)
		span = 1 << b
	}
	lo := span * uint64(shard) / uint64(shards)
	hi := span * uint64(shard+1) / uint64(shards)
	buf := make([]byte, 32)
	ref := make([]byte, 0, 32)
	for _, k := range kinds {
		if !k.bits32 || k.packed {
			continue
		}
		for _, num := range []int{1, 1<<29 - 1} {
			keyLen := csproto.SizeOfTagKey(num)
			var count int64
			for x := lo; x < hi; x++ {
				v := k.norm(x)
				sz := keyLen + k.size(v)
				ref = refwire.AppendKey(ref[:0], num, k.wt)
				ref = k.ref(ref, v)
				if len(ref) != sz {
					rec.Check(t, "wcase", &WCase{Kind: k.name, Num: num, Vals: []uint64{x}}, ev.Failf(prop+"/size-mismatch/"+k.name, "predicted %d, canonical %d", sz, len(ref)))
					return
				}
				b := buf[:sz:sz]
				e := csproto.NewEncoder(b)
				k.enc(e, num, v)
				bad := !bytes.Equal(b, ref)
				var got uint64
				var err error
				if !bad {
					d := csproto.NewDecoder(b)
					if x&1 == 1 {
						d.SetMode(csproto.DecoderModeFast)
					}
					var gn int
					var gw csproto.WireType
					gn, gw, err = d.DecodeTag()
					if err == nil {
						got, err = k.dec(d)
					}
					bad = err != nil || gn != num || int(gw) != k.wt || got != v || d.Offset() != sz
				}
				if bad {
					c := &WCase{Kind: k.name, Num: num, Mode: int(x & 1), Vals: []uint64{x}}
					var f *ev.Failure
					if prop == "C01" {
						f = oracleC01(c)
					} else {
						f = oracleC02(c)
					}
					if f == nil {
						f = ev.Failf(prop+"/enum-inconsistent/"+k.name, "fast path failed for %#x but oracle passes", x)
					}
					if !rec.Check(t, "wcase", c, f) && rec.KnownMatch(f.Sig) != nil {
						continue
					}
					return
				}
				count++
			}
			rec.Eval(count)
			rec.NonTrivialEnum(count)
			rec.ClassN("enum32/"+k.name, count)
		}
	}
	rec.Extra("exhaustive_32bit", fmt.Sprintf("all values in [%d,%d) of shard %d/%d for every singular 32-bit kind at numbers 1 and 2^29-1", lo, hi, shard, shards))
}

// enumerateTags runs every field number 1..2^29-1 with each of the four wire types through
// SizeOfTagKey / EncodeTag / DecodeTag.
func enumerateTags(t *testing.T, rec *ev.Recorder, prop string) {
	shard, shards := ev.Shard()
	maxN := uint64(refwire.MaxFieldNumber)
	if os.Getenv("VERIF_ENUM_BITS") != "" {
		var b uint
		fmt.Sscan(os.Getenv("VERIF_ENUM_BITS"), &b)
		if b < 29 {
			maxN = 1<<b - 1
		}
	}
	lo := 1 + maxN*uint64(shard)/uint64(shards)
	hi := 1 + maxN*uint64(shard+1)/uint64(shards)
	buf := make([]byte, 16)
	ref := make([]byte, 0, 16)
	var count int64
	for n := lo; n < hi; n++ {
		num := int(n)
		for _, wt := range [4]int{0, 1, 2, 5} {
			sz := csproto.SizeOfTagKey(num)
			ref = refwire.AppendKey(ref[:0], num, wt)
			b := buf[:sz:sz]
			w := csproto.EncodeTag(b, num, csproto.WireType(wt))
			ok := w == sz && bytes.Equal(b, ref)
			if ok {
				d := csproto.NewDecoder(b)
				gn, gw, err := d.DecodeTag()
				ok = err == nil && gn == num && int(gw) == wt && d.Offset() == sz
				if !ok {
					sig := prop + "/tag-rejected/plain"
					if num >= 1<<26 {
						sig = prop + "/tag-rejected/num>=2^26"
					}
					f := ev.Failf(sig, "DecodeTag on key (%d,%d) = (%d,%d,%v)", num, wt, gn, gw, err)
					if !rec.Check(t, "tag", map[string]any{"num": num, "wt": wt}, f) && rec.KnownMatch(f.Sig) != nil {
						continue
					}
					return
				}
			} else {
				f := ev.Failf(prop+"/tag-encode", "EncodeTag(%d,%d) wrote %d bytes %x; predicted %d, canonical %x", num, wt, w, b, sz, ref)
				rec.Check(t, "tag", map[string]any{"num": num, "wt": wt}, f)
				return
			}
			count++
		}
	}
	rec.Eval(count)
	rec.NonTrivialEnum(count)
	rec.ClassN("enum-tags", count)
	rec.Extra("exhaustive_tags", fmt.Sprintf("field numbers [%d,%d) x wire types {0,1,2,5}", lo, hi))
}

// replayTag re-runs a saved "tag" case without the library.
func replayTag(prop string, raw json.RawMessage) *ev.Failure {
	var c struct{ Num, Wt int }
	if err := json.Unmarshal(raw, &c); err != nil {
		return ev.Failf(prop+"/replay", "bad case: %v", err)
	}
	sz := csproto.SizeOfTagKey(c.Num)
	b := make([]byte, sz)
	csproto.EncodeTag(b, c.Num, csproto.WireType(c.Wt))
	if !bytes.Equal(b, refwire.AppendKey(nil, c.Num, c.Wt)) {
		return ev.Failf(prop+"/tag-encode", "EncodeTag(%d,%d) = %x", c.Num, c.Wt, b)
	}
	gn, gw, err := csproto.NewDecoder(b).DecodeTag()
	if err != nil || gn != c.Num || int(gw) != c.Wt {
		sig := prop + "/tag-rejected/plain"
		if c.Num >= 1<<26 {
			sig = prop + "/tag-rejected/num>=2^26"
		}
		return ev.Failf(sig, "DecodeTag on key (%d,%d) = (%d,%d,%v)", c.Num, c.Wt, gn, gw, err)
	}
	return nil
}
