package wire

import (
	"bytes"
	"encoding/json"
	"fmt"
	"strings"
	"testing"

	"github.com/CrowdStrike/csproto"
	"pgregory.net/rapid"

	"verif/harness/internal/ev"
	"verif/harness/internal/refwire"
	"verif/harness/internal/wiregen"
)

// oracleC02: differential against two independent references, both directions.
func oracleC02(c *WCase) (f *ev.Failure) {
	defer func() {
		if r := recover(); r != nil {
			f = ev.Failf("C02/panic/"+c.Kind, "panic: %v", r)
		}
	}()
	var want []byte
	for cc := c; cc != nil; cc = cc.Second {
		k := kindByName(cc.Kind)
		a, b := refEncode(k, cc), pwEncode(k, cc)
		if !bytes.Equal(a, b) {
			panic("harness: refwire and protowire disagree on " + cc.Kind)
		}
		want = append(want, a...)
	}
	// direction 1: bytes written by csproto == canonical bytes.  The buffer is sized from the
	// reference here (not from csproto's helpers: that is C01's business).
	got, p := encodeExact(c, len(want), 0xA5)
	if p != nil {
		return ev.Failf("C02/encode-overrun/"+c.Kind, "encoder panicked on a buffer of the canonical size %d: %v", len(want), p)
	}
	if !bytes.Equal(got, want) {
		return ev.Failf("C02/bytes-differ/"+c.Kind, "csproto wrote %.64x, canonical encoding is %.64x", got, want)
	}
	// direction 2: the reference's bytes decode through csproto to the reference's value
	d := csproto.NewDecoder(want)
	if c.Mode == 1 {
		d.SetMode(csproto.DecoderModeFast)
	}
	start := 0
	for cc := c; cc != nil; cc = cc.Second {
		k := kindByName(cc.Kind)
		sz := len(refEncode(k, cc))
		if f := decodeAndCompare("C02", k, d, cc, start, sz); f != nil {
			return f
		}
		start += sz
	}
	// direction 3: encodings a conforming writer MAY emit although csproto's own encoder never does: varints
	// (values, packed elements, length prefixes) padded with zero groups, and a bool written as any non-zero
	// varint.  A conforming reader - the reference - reads the same value from them.
	if alt, exp := altEncode(c); alt != nil {
		d := csproto.NewDecoder(alt)
		if c.Mode == 1 {
			d.SetMode(csproto.DecoderModeFast)
		}
		if f := decodeAndCompare("C02", kindByName(c.Kind), d, exp, 0, len(alt)); f != nil {
			f.Sig = strings.Replace(f.Sig, "C02/", "C02/non-minimal-encoding/", 1)
			f.Detail += fmt.Sprintf(" (non-minimal but valid encoding %.64x)", alt)
			return f
		}
	}
	return nil
}

// padVarint re-encodes a minimally encoded varint with p extra zero groups; unchanged if that exceeds 10 bytes.
func padVarint(min []byte, p int) []byte {
	if p == 0 || len(min)+p > 10 {
		return min
	}
	out := append([]byte{}, min...)
	out[len(out)-1] |= 0x80
	for i := 0; i < p-1; i++ {
		out = append(out, 0x80)
	}
	return append(out, 0x00)
}

// altEncode builds a valid non-minimal encoding of the case's first field and the case describing what a
// conforming reader gets out of it.  The amount of padding is a function of the case (no randomness here).
func altEncode(c *WCase) ([]byte, *WCase) {
	k := kindByName(c.Kind)
	exp := &WCase{Kind: c.Kind, Num: c.Num, Mode: c.Mode, Data: c.Data, Vals: append([]uint64{}, c.Vals...)}
	isBool := k.name == "bool" || k.name == "packed-bool"
	elem := func(i int, v uint64) []byte {
		if k.wt != refwire.WTVarint {
			return k.ref(nil, k.norm(v))
		}
		if isBool && v > 1 && i%2 == 0 {
			exp.Vals[i] = 1 // any non-zero varint is true
			return padVarint(refwire.AppendVarint(nil, v), (i/2)%2)
		}
		return padVarint(k.ref(nil, k.norm(v)), (i+c.Num)%3)
	}
	var out []byte
	switch {
	case k.isLen:
		out = refwire.AppendKey(out, c.Num, refwire.WTLen)
		out = append(out, padVarint(refwire.AppendVarint(nil, uint64(len(c.Data))), 1+c.Num%2)...)
		out = append(out, c.Data...)
	case k.packed:
		if len(c.Vals) == 0 {
			return nil, nil
		}
		var p []byte
		for i, v := range c.Vals {
			p = append(p, elem(i, v)...)
		}
		out = refwire.AppendKey(out, c.Num, refwire.WTLen)
		out = append(out, padVarint(refwire.AppendVarint(nil, uint64(len(p))), c.Num%3)...)
		out = append(out, p...)
	default:
		if k.wt != refwire.WTVarint {
			return nil, nil
		}
		out = refwire.AppendKey(out, c.Num, k.wt)
		if isBool && c.Vals[0] > 1 {
			exp.Vals[0] = 1
			out = append(out, padVarint(refwire.AppendVarint(nil, c.Vals[0]), c.Num%2)...)
		} else {
			out = append(out, padVarint(k.ref(nil, k.norm(c.Vals[0])), 1+c.Num%2)...)
		}
	}
	// the reference agrees that this is one complete, valid field
	if fs, err := refwire.Walk(out); err != nil || len(fs) != 1 {
		panic(fmt.Sprintf("harness: alternative encoding %x is not one valid field: %v", out, err))
	}
	return out, exp
}

// SkipCase is a well-formed field sequence walked with DecodeTag + Skip.
type SkipCase struct {
	Fields []wiregen.WField `json:"fields"`
	Mode   int              `json:"mode"`
}

// oracleSkip: Skip returns exactly input[keyStart:end] for every field and leaves the cursor on
// the next field, so the concatenation reproduces the input.
func oracleSkip(c *SkipCase) (f *ev.Failure) {
	defer func() {
		if r := recover(); r != nil {
			f = ev.Failf("C02/skip-panic", "panic: %v", r)
		}
	}()
	in := wiregen.Encode(nil, c.Fields)
	refs, err := refwire.Walk(in)
	if err != nil || len(refs) != len(c.Fields) {
		panic("harness: reference walker rejects a generated sequence")
	}
	d := csproto.NewDecoder(in)
	if c.Mode == 1 {
		d.SetMode(csproto.DecoderModeFast)
	}
	var cat []byte
	for i, rf := range refs {
		if d.Offset() != rf.KeyStart {
			return ev.Failf("C02/skip-cursor", "field %d: cursor %d, field starts at %d", i, d.Offset(), rf.KeyStart)
		}
		num, wt, err := d.DecodeTag()
		if err != nil {
			cl := "plain"
			if rf.Num >= 1<<26 {
				cl = "num>=2^26"
			}
			return ev.Failf("C02/tag-rejected/"+cl, "field %d: DecodeTag: %v", i, err)
		}
		if num != rf.Num || int(wt) != rf.WT {
			return ev.Failf("C02/skip-tag-mismatch", "field %d: DecodeTag=(%d,%d) reference (%d,%d)", i, num, wt, rf.Num, rf.WT)
		}
		raw, err := d.Skip(num, wt)
		if err != nil {
			return ev.Failf("C02/skip-error", "field %d (%d,%d): Skip: %v", i, num, wt, err)
		}
		if !bytes.Equal(raw, in[rf.KeyStart:rf.End]) {
			return ev.Failf("C02/skip-bytes", "field %d (%d,%d): Skip returned %.40x, the field's complete encoding is %.40x", i, num, wt, raw, in[rf.KeyStart:rf.End])
		}
		if d.Offset() != rf.End {
			return ev.Failf("C02/skip-cursor", "field %d: cursor %d after Skip, next field at %d", i, d.Offset(), rf.End)
		}
		cat = append(cat, raw...)
	}
	if d.More() {
		return ev.Failf("C02/skip-more", "More() true at the end")
	}
	if !bytes.Equal(cat, in) {
		return ev.Failf("C02/skip-concat", "concatenation of skipped fields differs from the input")
	}
	return nil
}

func skipNontrivial(c *SkipCase) bool {
	if len(c.Fields) < 2 {
		return false
	}
	for _, f := range c.Fields {
		if f.WT == refwire.WTLen || f.Num >= 16 {
			return true
		}
	}
	return false
}

const ruleC02 = "C01's case stream (own run) checked differentially: csproto's bytes == protowire's == refwire's, and the references' bytes decode through csproto to the reference value, as do valid NON-minimal encodings of the same field (value / packed-element / length varints padded with zero groups, bool written as any non-zero varint); " +
	"plus well-formed field sequences (0..8 fields, nesting depth <= 3, all four wire types, numbers up to 2^29-1) walked with DecodeTag+Skip in both modes, and (thorough) every sequence of <= 3 fields over a small alphabet; " +
	"non-trivial = as C01; for Skip: >= 2 fields with a length-delimited field or a multi-byte key; distinct by case content"

func TestC02(t *testing.T) {
	rec := ev.New("C02", ruleC02)
	defer rec.Write()
	defer func() { t.Log(rec.Summary()) }()
	runWCases(t, rec, "wcase", oracleC02, ev.N(60000, 4000000), 2)
	ev.Rapid(t, ev.N(30000, 1000000), 3, func(rt *rapid.T) {
		c := &SkipCase{Fields: wiregen.Fields(3, 8).Draw(rt, "fields"), Mode: rapid.IntRange(0, 1).Draw(rt, "mode")}
		rec.Eval(1)
		rec.Class("skip/random")
		if skipNontrivial(c) {
			rec.NonTrivial(ev.FP("skip", c.Mode, wiregen.Encode(nil, c.Fields)))
			rec.Sample("skip", c)
		}
		rec.Check(rt, "skip", c, oracleSkip(c))
	})
	if ev.Thorough() {
		enumerateSkip(t, rec)
		enumerate32(t, rec, "C02")
		enumerateTags(t, rec, "C02")
	}
}

// enumerateSkip: every sequence of <= 3 fields over a small field alphabet, both modes.
func enumerateSkip(t *testing.T, rec *ev.Recorder) {
	alpha := []wiregen.WField{
		{Num: 1, WT: 0, Varint: 0}, {Num: 1, WT: 0, Varint: 300}, {Num: 16, WT: 0, Varint: 1<<64 - 1},
		{Num: 2, WT: 1, Fixed: 0x0102030405060708}, {Num: 2047, WT: 5, Fixed: 0xdeadbeef}, {Num: 2048, WT: 5, Fixed: 1},
		{Num: 3, WT: 2, Payload: []byte{}}, {Num: 3, WT: 2, Payload: []byte{0x08, 0x01}}, {Num: 1 << 20, WT: 2, Payload: bytes.Repeat([]byte{0xff}, 130)},
		{Num: 1<<25 - 1, WT: 0, Varint: 127}, {Num: 15, WT: 2, IsMsg: true, Nested: []wiregen.WField{{Num: 1, WT: 0, Varint: 5}}},
		{Num: 1<<29 - 1, WT: 1, Fixed: 7},
	}
	shard, shards := ev.Shard()
	idx := 0
	var rec3 func(prefix []wiregen.WField, depth int) bool
	rec3 = func(prefix []wiregen.WField, depth int) bool {
		if len(prefix) > 0 {
			idx++
			if idx%shards == shard {
				for mode := 0; mode < 2; mode++ {
					c := &SkipCase{Fields: prefix, Mode: mode}
					rec.Eval(1)
					if skipNontrivial(c) {
						rec.NonTrivialEnum(1)
					}
					if f := oracleSkip(c); f != nil {
						if rec.Check(t, "skip", c, f) || rec.KnownMatch(f.Sig) == nil {
							return false
						}
					}
				}
			}
		}
		if depth == 3 {
			return true
		}
		for _, a := range alpha {
			if !rec3(append(append([]wiregen.WField{}, prefix...), a), depth+1) {
				return false
			}
		}
		return true
	}
	rec3(nil, 0)
	rec.ClassN("skip/enumerated", int64(idx))
	rec.Extra("exhaustive_skip", "all sequences of 1..3 fields over a 12-field alphabet x {safe, fast}")
}

// TestReplay re-runs one saved case through the plain oracle, bypassing rapid.
func TestReplay(t *testing.T) { ev.RunReplay(t, replayOne) }

func replayOne(rp *ev.Replay) *ev.Failure {
	switch rp.Property + "/" + rp.Test {
	case "C01/wcase", "C02/wcase":
		var c WCase
		if err := json.Unmarshal(rp.Case, &c); err != nil {
			return ev.Failf(rp.Property+"/replay", "bad case: %v", err)
		}
		if rp.Property == "C01" {
			return oracleC01(&c)
		}
		return oracleC02(&c)
	case "C01/tag", "C02/tag":
		return replayTag(rp.Property, rp.Case)
	case "C01/size":
		var c struct {
			V   uint64
			Num int
		}
		if err := json.Unmarshal(rp.Case, &c); err != nil {
			return ev.Failf("C01/replay", "bad case: %v", err)
		}
		return sizeHelpersAgree(c.V, c.Num)
	case "C02/skip":
		var c SkipCase
		if err := json.Unmarshal(rp.Case, &c); err != nil {
			return ev.Failf("C02/replay", "bad case: %v", err)
		}
		return oracleSkip(&c)
	}
	return replayMore(rp)
}
