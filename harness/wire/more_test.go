package wire

import (
	"encoding/json"
	"io"

	"github.com/CrowdStrike/csproto"

	"verif/harness/internal/ev"
)

func replayMore(rp *ev.Replay) *ev.Failure {
	switch rp.Property + "/" + rp.Test {
	case "C03/dcase":
		var c DCase
		if err := json.Unmarshal(rp.Case, &c); err != nil {
			return ev.Failf("C03/replay", "bad case: %v", err)
		}
		f, _ := oracleC03(&c)
		return f
	case "C19/ncase":
		var c NCase
		if err := json.Unmarshal(rp.Case, &c); err != nil {
			return ev.Failf("C19/replay", "bad case: %v", err)
		}
		return oracleC19(&c)
	case "C03/dcase-enum":
		var c struct{ In []byte }
		if err := json.Unmarshal(rp.Case, &c); err != nil {
			return ev.Failf("C03/replay", "bad case: %v", err)
		}
		for off := 0; off <= len(c.In); off++ {
			for mode := 0; mode < 2; mode++ {
				for m := range dmethods {
					s := &dstate{in: c.In, d: csproto.NewDecoder(c.In)}
					_, _ = s.d.Seek(int64(off), io.SeekStart)
					if mode == 1 {
						s.d.SetMode(csproto.DecoderModeFast)
						s.mode = csproto.DecoderModeFast
					}
					if f, _ := s.step(Op{M: m}, true); f != nil {
						return f
					}
				}
			}
		}
		return nil
	}
	return ev.Failf(rp.Property+"/replay", "unknown replay kind %s/%s", rp.Property, rp.Test)
}
