package wire

import "verif/harness/internal/ev"

func replayMore(rp *ev.Replay) *ev.Failure {
	return ev.Failf(rp.Property+"/replay", "unknown replay kind %s/%s", rp.Property, rp.Test)
}
