package wire

import (
	"math"

	"github.com/CrowdStrike/csproto"
	"google.golang.org/protobuf/encoding/protowire"

	"verif/harness/internal/refwire"
)

// kind describes one scalar kind (or one packed list kind) of the hand-written codec.  Values
// are carried as raw uint64 patterns; norm maps an arbitrary pattern into the kind's domain.
type kind struct {
	name   string
	packed bool
	bits32 bool // the domain has 2^32 values (enumerable)
	isLen  bool // string / bytes
	wt     int  // wire type of one singular occurrence
	norm   func(uint64) uint64
	// size of one value (no key) predicted with csproto's size helpers
	size func(v uint64) int
	// reference encoding of one value (no key)
	ref func(dst []byte, v uint64) []byte
	// singular
	enc func(e *csproto.Encoder, num int, v uint64)
	dec func(d *csproto.Decoder) (uint64, error)
	// packed
	encP func(e *csproto.Encoder, num int, vs []uint64)
	decP func(d *csproto.Decoder) ([]uint64, error)
	// string/bytes
	encB func(e *csproto.Encoder, num int, b []byte)
	decB func(d *csproto.Decoder) ([]byte, error)
}

func nBool(v uint64) uint64   { return v & 1 }
func nI32(v uint64) uint64    { return uint64(int64(int32(uint32(v)))) } // sign-extended
func nU32(v uint64) uint64    { return uint64(uint32(v)) }
func n64(v uint64) uint64     { return v }
func szVarint(v uint64) int   { return csproto.SizeOfVarint(v) }
func szZigZag(v uint64) int   { return csproto.SizeOfZigZag(v) }
func sz4(uint64) int          { return 4 }
func sz8(uint64) int          { return 8 }
func sz1(uint64) int          { return 1 }
func refVarint(d []byte, v uint64) []byte { return refwire.AppendVarint(d, v) }
func refZZ32(d []byte, v uint64) []byte {
	return refwire.AppendVarint(d, refwire.ZigZag32(int32(uint32(v))))
}
func refZZ64(d []byte, v uint64) []byte { return refwire.AppendVarint(d, refwire.ZigZag64(int64(v))) }
func ref32(d []byte, v uint64) []byte   { return refwire.AppendFixed32(d, uint32(v)) }
func ref64(d []byte, v uint64) []byte   { return refwire.AppendFixed64(d, v) }

// protowire encoding of one value, second independent reference
func pwValue(k *kind, dst []byte, v uint64) []byte {
	switch k.wt {
	case refwire.WTVarint:
		switch k.name {
		case "sint32", "packed-sint32":
			return protowire.AppendVarint(dst, uint64(uint32(protowire.EncodeZigZag(int64(int32(uint32(v)))))))
		case "sint64", "packed-sint64":
			return protowire.AppendVarint(dst, protowire.EncodeZigZag(int64(v)))
		case "bool", "packed-bool":
			return protowire.AppendVarint(dst, protowire.EncodeBool(v != 0))
		}
		return protowire.AppendVarint(dst, v)
	case refwire.WTFixed32:
		return protowire.AppendFixed32(dst, uint32(v))
	case refwire.WTFixed64:
		return protowire.AppendFixed64(dst, v)
	}
	panic("pwValue")
}

func conv[T any, U any](in []T, f func(T) U) []U {
	if in == nil {
		return nil
	}
	out := make([]U, len(in))
	for i, v := range in {
		out[i] = f(v)
	}
	return out
}

var kinds = buildKinds()

func buildKinds() []*kind {
	ks := []*kind{
		{name: "bool", wt: 0, norm: nBool, size: sz1, ref: refVarint,
			enc: func(e *csproto.Encoder, n int, v uint64) { e.EncodeBool(n, v != 0) },
			dec: func(d *csproto.Decoder) (uint64, error) {
				b, err := d.DecodeBool()
				if b {
					return 1, err
				}
				return 0, err
			}},
		{name: "int32", wt: 0, bits32: true, norm: nI32, size: szVarint, ref: refVarint,
			enc: func(e *csproto.Encoder, n int, v uint64) { e.EncodeInt32(n, int32(uint32(v))) },
			dec: func(d *csproto.Decoder) (uint64, error) { v, err := d.DecodeInt32(); return uint64(int64(v)), err }},
		{name: "int64", wt: 0, norm: n64, size: szVarint, ref: refVarint,
			enc: func(e *csproto.Encoder, n int, v uint64) { e.EncodeInt64(n, int64(v)) },
			dec: func(d *csproto.Decoder) (uint64, error) { v, err := d.DecodeInt64(); return uint64(v), err }},
		{name: "uint32", wt: 0, bits32: true, norm: nU32, size: szVarint, ref: refVarint,
			enc: func(e *csproto.Encoder, n int, v uint64) { e.EncodeUInt32(n, uint32(v)) },
			dec: func(d *csproto.Decoder) (uint64, error) { v, err := d.DecodeUInt32(); return uint64(v), err }},
		{name: "uint64", wt: 0, norm: n64, size: szVarint, ref: refVarint,
			enc: func(e *csproto.Encoder, n int, v uint64) { e.EncodeUInt64(n, v) },
			dec: func(d *csproto.Decoder) (uint64, error) { return d.DecodeUInt64() }},
		{name: "sint32", wt: 0, bits32: true, norm: nI32, size: szZigZag, ref: refZZ32,
			enc: func(e *csproto.Encoder, n int, v uint64) { e.EncodeSInt32(n, int32(uint32(v))) },
			dec: func(d *csproto.Decoder) (uint64, error) { v, err := d.DecodeSInt32(); return uint64(int64(v)), err }},
		{name: "sint64", wt: 0, norm: n64, size: szZigZag, ref: refZZ64,
			enc: func(e *csproto.Encoder, n int, v uint64) { e.EncodeSInt64(n, int64(v)) },
			dec: func(d *csproto.Decoder) (uint64, error) { v, err := d.DecodeSInt64(); return uint64(v), err }},
		{name: "fixed32", wt: 5, bits32: true, norm: nU32, size: sz4, ref: ref32,
			enc: func(e *csproto.Encoder, n int, v uint64) { e.EncodeFixed32(n, uint32(v)) },
			dec: func(d *csproto.Decoder) (uint64, error) { v, err := d.DecodeFixed32(); return uint64(v), err }},
		{name: "fixed64", wt: 1, norm: n64, size: sz8, ref: ref64,
			enc: func(e *csproto.Encoder, n int, v uint64) { e.EncodeFixed64(n, v) },
			dec: func(d *csproto.Decoder) (uint64, error) { return d.DecodeFixed64() }},
		// sfixed32/64 have no writer/reader of their own: callers (and generated code) cast through the fixed ones
		{name: "sfixed32", wt: 5, bits32: true, norm: nI32, size: sz4, ref: ref32,
			enc: func(e *csproto.Encoder, n int, v uint64) { e.EncodeFixed32(n, uint32(int32(uint32(v)))) },
			dec: func(d *csproto.Decoder) (uint64, error) {
				v, err := d.DecodeFixed32()
				return uint64(int64(int32(v))), err
			}},
		{name: "sfixed64", wt: 1, norm: n64, size: sz8, ref: ref64,
			enc: func(e *csproto.Encoder, n int, v uint64) { e.EncodeFixed64(n, uint64(int64(v))) },
			dec: func(d *csproto.Decoder) (uint64, error) { v, err := d.DecodeFixed64(); return uint64(int64(v)), err }},
		{name: "float", wt: 5, bits32: true, norm: nU32, size: sz4, ref: ref32,
			enc: func(e *csproto.Encoder, n int, v uint64) { e.EncodeFloat32(n, math.Float32frombits(uint32(v))) },
			dec: func(d *csproto.Decoder) (uint64, error) {
				v, err := d.DecodeFloat32()
				return uint64(math.Float32bits(v)), err
			}},
		{name: "double", wt: 1, norm: n64, size: sz8, ref: ref64,
			enc: func(e *csproto.Encoder, n int, v uint64) { e.EncodeFloat64(n, math.Float64frombits(v)) },
			dec: func(d *csproto.Decoder) (uint64, error) {
				v, err := d.DecodeFloat64()
				return math.Float64bits(v), err
			}},
		{name: "string", wt: 2, isLen: true,
			encB: func(e *csproto.Encoder, n int, b []byte) { e.EncodeString(n, string(b)) },
			decB: func(d *csproto.Decoder) ([]byte, error) { s, err := d.DecodeString(); return []byte(s), err }},
		{name: "bytes", wt: 2, isLen: true,
			encB: func(e *csproto.Encoder, n int, b []byte) { e.EncodeBytes(n, b) },
			decB: func(d *csproto.Decoder) ([]byte, error) { return d.DecodeBytes() }},

		// the 13 EncodePacked* kinds
		{name: "packed-bool", packed: true, wt: 0, norm: nBool, size: sz1, ref: refVarint,
			encP: func(e *csproto.Encoder, n int, vs []uint64) {
				e.EncodePackedBool(n, conv(vs, func(v uint64) bool { return v != 0 }))
			},
			decP: func(d *csproto.Decoder) ([]uint64, error) {
				r, err := d.DecodePackedBool()
				return conv(r, func(b bool) uint64 {
					if b {
						return 1
					}
					return 0
				}), err
			}},
		{name: "packed-int32", packed: true, wt: 0, bits32: true, norm: nI32, size: szVarint, ref: refVarint,
			encP: func(e *csproto.Encoder, n int, vs []uint64) {
				e.EncodePackedInt32(n, conv(vs, func(v uint64) int32 { return int32(uint32(v)) }))
			},
			decP: func(d *csproto.Decoder) ([]uint64, error) {
				r, err := d.DecodePackedInt32()
				return conv(r, func(v int32) uint64 { return uint64(int64(v)) }), err
			}},
		{name: "packed-int64", packed: true, wt: 0, norm: n64, size: szVarint, ref: refVarint,
			encP: func(e *csproto.Encoder, n int, vs []uint64) {
				e.EncodePackedInt64(n, conv(vs, func(v uint64) int64 { return int64(v) }))
			},
			decP: func(d *csproto.Decoder) ([]uint64, error) {
				r, err := d.DecodePackedInt64()
				return conv(r, func(v int64) uint64 { return uint64(v) }), err
			}},
		{name: "packed-uint32", packed: true, wt: 0, bits32: true, norm: nU32, size: szVarint, ref: refVarint,
			encP: func(e *csproto.Encoder, n int, vs []uint64) {
				e.EncodePackedUInt32(n, conv(vs, func(v uint64) uint32 { return uint32(v) }))
			},
			decP: func(d *csproto.Decoder) ([]uint64, error) {
				r, err := d.DecodePackedUint32()
				return conv(r, func(v uint32) uint64 { return uint64(v) }), err
			}},
		{name: "packed-uint64", packed: true, wt: 0, norm: n64, size: szVarint, ref: refVarint,
			encP: func(e *csproto.Encoder, n int, vs []uint64) { e.EncodePackedUInt64(n, append([]uint64(nil), vs...)) },
			decP: func(d *csproto.Decoder) ([]uint64, error) { return d.DecodePackedUint64() }},
		{name: "packed-sint32", packed: true, wt: 0, bits32: true, norm: nI32, size: szZigZag, ref: refZZ32,
			encP: func(e *csproto.Encoder, n int, vs []uint64) {
				e.EncodePackedSInt32(n, conv(vs, func(v uint64) int32 { return int32(uint32(v)) }))
			},
			decP: func(d *csproto.Decoder) ([]uint64, error) {
				r, err := d.DecodePackedSint32()
				return conv(r, func(v int32) uint64 { return uint64(int64(v)) }), err
			}},
		{name: "packed-sint64", packed: true, wt: 0, norm: n64, size: szZigZag, ref: refZZ64,
			encP: func(e *csproto.Encoder, n int, vs []uint64) {
				e.EncodePackedSInt64(n, conv(vs, func(v uint64) int64 { return int64(v) }))
			},
			decP: func(d *csproto.Decoder) ([]uint64, error) {
				r, err := d.DecodePackedSint64()
				return conv(r, func(v int64) uint64 { return uint64(v) }), err
			}},
		{name: "packed-fixed32", packed: true, wt: 5, bits32: true, norm: nU32, size: sz4, ref: ref32,
			encP: func(e *csproto.Encoder, n int, vs []uint64) {
				e.EncodePackedFixed32(n, conv(vs, func(v uint64) uint32 { return uint32(v) }))
			},
			decP: func(d *csproto.Decoder) ([]uint64, error) {
				r, err := d.DecodePackedFixed32()
				return conv(r, func(v uint32) uint64 { return uint64(v) }), err
			}},
		{name: "packed-fixed64", packed: true, wt: 1, norm: n64, size: sz8, ref: ref64,
			encP: func(e *csproto.Encoder, n int, vs []uint64) { e.EncodePackedFixed64(n, append([]uint64(nil), vs...)) },
			decP: func(d *csproto.Decoder) ([]uint64, error) { return d.DecodePackedFixed64() }},
		{name: "packed-sfixed32", packed: true, wt: 5, bits32: true, norm: nI32, size: sz4, ref: ref32,
			encP: func(e *csproto.Encoder, n int, vs []uint64) {
				e.EncodePackedSFixed32(n, conv(vs, func(v uint64) int32 { return int32(uint32(v)) }))
			},
			decP: func(d *csproto.Decoder) ([]uint64, error) {
				r, err := d.DecodePackedFixed32()
				return conv(r, func(v uint32) uint64 { return uint64(int64(int32(v))) }), err
			}},
		{name: "packed-sfixed64", packed: true, wt: 1, norm: n64, size: sz8, ref: ref64,
			encP: func(e *csproto.Encoder, n int, vs []uint64) {
				e.EncodePackedSFixed64(n, conv(vs, func(v uint64) int64 { return int64(v) }))
			},
			decP: func(d *csproto.Decoder) ([]uint64, error) { return d.DecodePackedFixed64() }},
		{name: "packed-float", packed: true, wt: 5, bits32: true, norm: nU32, size: sz4, ref: ref32,
			encP: func(e *csproto.Encoder, n int, vs []uint64) {
				e.EncodePackedFloat32(n, conv(vs, func(v uint64) float32 { return math.Float32frombits(uint32(v)) }))
			},
			decP: func(d *csproto.Decoder) ([]uint64, error) {
				r, err := d.DecodePackedFloat32()
				return conv(r, func(v float32) uint64 { return uint64(math.Float32bits(v)) }), err
			}},
		{name: "packed-double", packed: true, wt: 1, norm: n64, size: sz8, ref: ref64,
			encP: func(e *csproto.Encoder, n int, vs []uint64) {
				e.EncodePackedFloat64(n, conv(vs, func(v uint64) float64 { return math.Float64frombits(v) }))
			},
			decP: func(d *csproto.Decoder) ([]uint64, error) {
				r, err := d.DecodePackedFloat64()
				return conv(r, func(v float64) uint64 { return math.Float64bits(v) }), err
			}},
	}
	return ks
}

func kindByName(n string) *kind {
	for _, k := range kinds {
		if k.name == n {
			return k
		}
	}
	return nil
}
