// vgen regenerates the schema corpus for every runtime variant: it builds the descriptors, runs the
// message-type generators (fixtures) and the working-tree protoc-gen-fastmarshal (the code under
// test, twice, for the determinism clause of C16), writes the Go files into harness/gencode/gen/,
// compiles every package separately so that a feature whose generated code does not build is
// attributed to that feature, and writes the manifest + descriptor set the checks read.
package main

import (
	"encoding/json"
	"flag"
	"fmt"
	"go/parser"
	"go/token"
	"os"
	"os/exec"
	"path/filepath"
	"regexp"
	"sort"
	"strings"
	"sync"
	"time"

	"google.golang.org/protobuf/proto"
	"google.golang.org/protobuf/reflect/protodesc"
	"google.golang.org/protobuf/reflect/protoregistry"
	"google.golang.org/protobuf/types/descriptorpb"
	"google.golang.org/protobuf/types/known/durationpb"
	"google.golang.org/protobuf/types/known/timestamppb"
	"google.golang.org/protobuf/types/known/wrapperspb"

	"verif/harness/internal/miniprotoc"
	"verif/harness/internal/schema"
)

// Variant describes one runtime/option combination.
type Variant struct {
	Name      string `json:"name"`
	Runtime   string `json:"runtime"` // gv2 | gv1gen | gogo | legacy
	MsgPlugin string `json:"msg_plugin"`
	MsgParam  string `json:"msg_param"`
	FMParam   string `json:"fm_param"`
	APIv      string `json:"api_version"`
	PerMsg    bool   `json:"file_per_message"`
	Unsafe    bool   `json:"unsafe_decode"`
	CoreOnly  bool   `json:"core_only"`
	Plain     bool   `json:"plain"` // no fast-marshal code (plain twin for the shim checks)
}

// FileInfo is the manifest entry of one (variant, file).
type FileInfo struct {
	Variant      string   `json:"variant"`
	Runtime      string   `json:"runtime"`
	File         string   `json:"file"`
	Feature      string   `json:"feature"`
	ProtoFile    string   `json:"proto_file"`
	ProtoPackage string   `json:"proto_package"`
	GoImport     string   `json:"go_import"`
	Syntax       string   `json:"syntax"`
	Messages     []string `json:"messages"` // full names of all (non map-entry) messages
	APIv         string   `json:"api_version"`
	PerMsg       bool     `json:"file_per_message"`
	Unsafe       bool     `json:"unsafe_decode"`
	Plain        bool     `json:"plain"`
	FMParam      string   `json:"fm_param"`

	MsgGenErr    string   `json:"msg_gen_err,omitempty"` // fixture trouble (not a finding)
	FMErr        string   `json:"fm_err,omitempty"`      // plug-in error / protocol violation
	FMFiles      []string `json:"fm_files,omitempty"`
	Expected     []string `json:"expected_fm_files,omitempty"`
	NonDeterm    string   `json:"non_deterministic,omitempty"`
	OptSpelling  string   `json:"option_spelling,omitempty"` // a boolean option spelled another way changed the output
	ParseErr     string   `json:"parse_err,omitempty"`
	BuildErr     string   `json:"build_err,omitempty"`
	PlainBuildOK bool     `json:"plain_build_ok"` // the message types alone compile (fixture sanity)
	Usable       bool     `json:"usable"`         // compiled with fast-marshal code and linked into the test binary
}

var (
	outDir  = flag.String("out", "", "harness root (contains go.mod)")
	plugDir = flag.String("plugins", "", "directory with protoc-gen-go, protoc-gen-go-v1, protoc-gen-gogo")
	fmBin   = flag.String("fm", "", "protoc-gen-fastmarshal built from the working tree")
	modFile = flag.String("modfile", "", "alternate go.mod (self-test)")
	tier    = flag.String("tier", "quick", "quick|thorough")
	seed    = flag.Uint64("seed", 1, "seed for random schemas")
	nRandom = flag.Int("random", 0, "number of random schema files")
	jobs    = flag.Int("j", 16, "parallel builds")
)

const wktGogo = "Mgoogle/protobuf/timestamp.proto=github.com/gogo/protobuf/types,Mgoogle/protobuf/duration.proto=github.com/gogo/protobuf/types,Mgoogle/protobuf/wrappers.proto=github.com/gogo/protobuf/types"
const wktGogoFM = "Mgoogle/protobuf/timestamp.proto=github.com/gogo/protobuf/types;types,Mgoogle/protobuf/duration.proto=github.com/gogo/protobuf/types;types,Mgoogle/protobuf/wrappers.proto=github.com/gogo/protobuf/types;types"

func variants() []Variant {
	vs := []Variant{
		{Name: "gv2s", Runtime: "gv2", MsgPlugin: "protoc-gen-go", FMParam: "apiversion=v2", APIv: "v2"},
		{Name: "gogos", Runtime: "gogo", MsgPlugin: "protoc-gen-gogo", MsgParam: wktGogo, FMParam: wktGogoFM, APIv: "v1"},
		{Name: "legacys", Runtime: "legacy", MsgPlugin: "protoc-gen-gogo", FMParam: "apiversion=v1", APIv: "v1"},
		{Name: "gv1s", Runtime: "gv1gen", MsgPlugin: "protoc-gen-go-v1", FMParam: "apiversion=v2", APIv: "v2", CoreOnly: true},
		{Name: "gv2u", Runtime: "gv2", MsgPlugin: "protoc-gen-go", FMParam: "apiversion=v2,enableunsafedecode=true", APIv: "v2", Unsafe: true, CoreOnly: true},
		{Name: "gv2p", Runtime: "gv2", MsgPlugin: "protoc-gen-go", FMParam: "apiversion=v2,filepermessage=true", APIv: "v2", PerMsg: true, CoreOnly: true},
		{Name: "gogop", Runtime: "gogo", MsgPlugin: "protoc-gen-gogo", MsgParam: wktGogo, FMParam: wktGogoFM + ",filepermessage=true,enableunsafedecode=true", APIv: "v1", PerMsg: true, Unsafe: true, CoreOnly: true},
		// plain twins (no fast-marshal code) for the shim checks
		{Name: "gv2plain", Runtime: "gv2", MsgPlugin: "protoc-gen-go", Plain: true, CoreOnly: true},
		{Name: "gogoplain", Runtime: "gogo", MsgPlugin: "protoc-gen-gogo", MsgParam: wktGogo, Plain: true, CoreOnly: true},
		{Name: "legacyplain", Runtime: "legacy", MsgPlugin: "protoc-gen-gogo", Plain: true, CoreOnly: true},
	}
	for i := range vs {
		if !vs[i].Plain {
			vs[i].FMParam = withSpecialNames(vs[i])
		}
	}
	if *tier == "thorough" {
		for i := range vs {
			if !vs[i].Plain {
				vs[i].CoreOnly = false
			}
		}
	}
	return vs
}

func ctxFor(v Variant) *schema.Ctx {
	return &schema.Ctx{
		ProtoPrefix:   "vf." + v.Name,
		GoPrefix:      "verif/harness/gencode/gen/" + v.Name,
		PathPrefix:    "vf/" + v.Name,
		Proto3Opt:     v.Runtime == "gv2" || v.Runtime == "gv1gen",
		GogoWKT:       v.Runtime == "gogo",
		SpecialFields: specialFields(v),
	}
}

// specialFields: field names that the message generator of the variant renames (Go name + "_"): protoc-gen-gogo
// reserves the names of the methods it may generate, protoc-gen-go those of its own methods.  (A field called
// size / marshal / unmarshal cannot be combined with fast-marshal code on the Google runtimes at all: the
// struct field and the generated method would share a name.)
func specialFields(v Variant) []string {
	if v.Plain {
		return nil
	}
	if v.Runtime == "gogo" || v.Runtime == "legacy" {
		return []string{"size", "marshal", "unmarshal", "reset", "string", "descriptor"}
	}
	return []string{"reset", "string", "descriptor"}
}

// withSpecialNames appends one specialname option per renamed field (the documented way to give several).
func withSpecialNames(v Variant) string {
	p := v.FMParam
	for _, n := range specialFields(v) {
		p += ",specialname=" + strings.ToUpper(n[:1]) + n[1:]
	}
	return p
}

func wktFiles() []*descriptorpb.FileDescriptorProto {
	return []*descriptorpb.FileDescriptorProto{
		protodesc.ToFileDescriptorProto(timestamppb.File_google_protobuf_timestamp_proto),
		protodesc.ToFileDescriptorProto(durationpb.File_google_protobuf_duration_proto),
		protodesc.ToFileDescriptorProto(wrapperspb.File_google_protobuf_wrappers_proto),
	}
}

func allMessages(pkg string, ms []*descriptorpb.DescriptorProto, prefix string, out *[]string) {
	for _, m := range ms {
		if m.GetOptions().GetMapEntry() {
			continue
		}
		full := pkg + "." + prefix + m.GetName()
		*out = append(*out, full)
		allMessages(pkg, m.NestedType, prefix+m.GetName()+".", out)
	}
}

func shortNames(ms []*descriptorpb.DescriptorProto, out *[]string) {
	// breadth-first like the plug-in's documented "one file per message"
	for _, m := range ms {
		if m.GetOptions().GetMapEntry() {
			continue
		}
		*out = append(*out, m.GetName())
	}
	for _, m := range ms {
		if !m.GetOptions().GetMapEntry() {
			shortNames(m.NestedType, out)
		}
	}
}

func main() {
	flag.Parse()
	genRoot := filepath.Join(*outDir, "gencode", "gen")
	_ = os.RemoveAll(genRoot)
	must(os.MkdirAll(genRoot, 0o755))

	type job struct {
		v     Variant
		spec  *schema.FileSpec
		info  *FileInfo
		deps  []*descriptorpb.FileDescriptorProto
		run1  *miniprotoc.Result
		depth int // 1 = imports no corpus file; n = longest chain of corpus imports has n files
	}
	maxDepth := 1
	var jobsList []*job
	set := &descriptorpb.FileDescriptorSet{}
	for _, v := range variants() {
		ctx := ctxFor(v)
		specs := schema.Corpus(ctx)
		if *nRandom > 0 && !v.Plain {
			specs = append(specs, schema.RandomFiles(ctx, *seed, *nRandom)...)
		}
		for _, spec := range specs {
			if v.CoreOnly && !spec.Core && !(v.Plain && strings.HasPrefix(spec.Name, "ext")) {
				continue // (the plain twins carry every extension file: C12 drives csproto's accessors on them)
			}
			info := &FileInfo{Variant: v.Name, Runtime: v.Runtime, File: spec.Name, Feature: spec.Feature, ProtoFile: spec.FD.GetName(), ProtoPackage: spec.FD.GetPackage(),
				GoImport: ctx.GoPrefix + "/" + spec.Name, Syntax: spec.FD.GetSyntax(), APIv: v.APIv, PerMsg: v.PerMsg, Unsafe: v.Unsafe, Plain: v.Plain, FMParam: v.FMParam}
			allMessages(spec.FD.GetPackage(), spec.FD.MessageType, "", &info.Messages)
			var deps []*descriptorpb.FileDescriptorProto
			for _, d := range spec.FD.Dependency {
				if strings.HasPrefix(d, "google/protobuf/") {
					deps = wktFiles()
					break
				}
			}
			for _, imp := range spec.Imports { // other corpus files of this variant: in the request, not in file_to_generate
				found := false
				for _, other := range specs {
					if other.Name == imp {
						deps = append(deps, other.FD)
						found = true
					}
				}
				if !found {
					fmt.Fprintf(os.Stderr, "vgen: %s imports %s which is not part of the corpus of variant %s\n", spec.Name, imp, v.Name)
					os.Exit(2)
				}
			}
			deps = append(deps, spec.FD)
			if err := validateFile(spec.FD, deps); err != nil {
				fmt.Fprintf(os.Stderr, "vgen: the harness built an invalid descriptor for %s: %v\n", spec.FD.GetName(), err)
				os.Exit(2)
			}
			set.File = append(set.File, spec.FD)
			var depthOf func(name string) int
			depthOf = func(name string) int {
				d := 1
				for _, other := range specs {
					if other.Name == name {
						for _, imp := range other.Imports {
							if x := depthOf(imp) + 1; x > d {
								d = x
							}
						}
					}
				}
				return d
			}
			jb := &job{v: v, spec: spec, info: info, deps: deps, depth: depthOf(spec.Name)}
			if jb.depth > maxDepth {
				maxDepth = jb.depth
			}
			jobsList = append(jobsList, jb)
		}
	}

	strip := func(name string) string { return strings.TrimPrefix(name, "verif/harness/") }
	writeFile := func(rel, content string) {
		p := filepath.Join(*outDir, rel)
		must(os.MkdirAll(filepath.Dir(p), 0o755))
		must(os.WriteFile(p, []byte(content), 0o644))
	}

	// pass 1: message types + first fast-marshal run
	wave := 0 // 0 = every job; n = files whose longest chain of corpus imports has n files
	runAll := func(fn func(j *job)) {
		var wg sync.WaitGroup
		sem := make(chan struct{}, *jobs)
		for _, j := range jobsList {
			if wave != 0 && j.depth != wave {
				continue
			}
			wg.Add(1)
			sem <- struct{}{}
			go func(j *job) {
				defer wg.Done()
				defer func() { <-sem }()
				fn(j)
			}(j)
		}
		wg.Wait()
	}
	runAll(func(j *job) {
		gen := []string{j.spec.FD.GetName()}
		res, err := miniprotoc.Run(filepath.Join(*plugDir, j.v.MsgPlugin), j.v.MsgParam, j.deps, gen, "", nil)
		if err != nil || res.Err != "" {
			j.info.MsgGenErr = fmt.Sprintf("%v %s", err, resErr(res))
			return
		}
		for name, content := range res.Files {
			if j.v.Runtime == "legacy" {
				content = legacyRewrite(content)
			}
			writeFile(strip(name), content)
		}
		if j.v.Plain {
			return
		}
		r1, err := miniprotoc.Run(*fmBin, j.v.FMParam, j.deps, gen, "", nil)
		if err != nil {
			j.info.FMErr = err.Error()
			return
		}
		j.run1 = r1
		if r1.Err != "" {
			j.info.FMErr = r1.Err
		}
	})
	// the template arguments carry Now and Pwd: run again at least a clock tick later, from another
	// directory and with another TZ/HOME; nothing of that may reach the output
	time.Sleep(1100 * time.Millisecond)
	otherDir, _ := os.MkdirTemp("", "vgen-cwd")
	defer os.RemoveAll(otherDir)
	runAll(func(j *job) {
		if j.run1 == nil {
			return
		}
		r2, err := miniprotoc.Run(*fmBin, j.v.FMParam, j.deps, []string{j.spec.FD.GetName()}, otherDir, []string{"TZ=Pacific/Kiritimati", "HOME=" + otherDir, "USER=someoneelse"})
		if err != nil {
			j.info.FMErr = err.Error()
			return
		}
		if r2.Err != j.run1.Err {
			j.info.NonDeterm = fmt.Sprintf("first run: %q, second run: %q", j.run1.Err, r2.Err)
		} else if string(r2.Raw) != string(j.run1.Raw) {
			j.info.NonDeterm = "two runs on the identical request produced different responses" + firstDiff(j.run1, r2)
		}
		if j.run1.Err != "" {
			return
		}
		// boolean options are parsed like Go flags: every spelling of false is the default, every spelling of true is
		// "true" (probed on one file per option set)
		if j.spec.Name == "mix3" && (j.v.Name == "gv2s" || j.v.Name == "gv2u" || j.v.Name == "gv2p" || j.v.Name == "gogop") {
			try := func(param, what string) {
				if j.info.OptSpelling != "" {
					return
				}
				r, err := miniprotoc.Run(*fmBin, param, j.deps, []string{j.spec.FD.GetName()}, "", nil)
				if err != nil || r.Err != j.run1.Err || string(r.Raw) != string(j.run1.Raw) {
					j.info.OptSpelling = fmt.Sprintf("%s: parameter %q does not give the output of %q", what, param, j.v.FMParam)
				}
			}
			for _, opt := range []string{"enableunsafedecode", "filepermessage"} {
				if strings.Contains(j.v.FMParam, opt+"=true") {
					for _, sp := range []string{"1", "t", "T", "TRUE", "True"} {
						try(strings.Replace(j.v.FMParam, opt+"=true", opt+"="+sp, 1), opt+" switched on as ="+sp)
					}
				} else {
					for _, sp := range []string{"false", "0", "f", "F", "FALSE", "False"} {
						try(j.v.FMParam+","+opt+"="+sp, opt+" explicitly switched off as ="+sp)
					}
				}
			}
		}
		// documented names
		prefix := strings.TrimSuffix(strip(j.info.GoImport+"/"+j.spec.Name), "")
		prefix = "gencode/gen/" + j.v.Name + "/" + j.spec.Name + "/" + j.spec.Name
		if j.v.PerMsg {
			var names []string
			shortNames(j.spec.FD.MessageType, &names)
			for _, n := range names {
				j.info.Expected = append(j.info.Expected, prefix+"_"+strings.ToLower(n)+".pb.fm.go")
			}
		} else {
			j.info.Expected = []string{prefix + ".pb.fm.go"}
		}
		sort.Strings(j.info.Expected)
		fset := token.NewFileSet()
		for _, name := range j.run1.Order {
			content := j.run1.Files[name]
			j.info.FMFiles = append(j.info.FMFiles, strip(name))
			if _, err := parser.ParseFile(fset, name, content, parser.AllErrors); err != nil && j.info.ParseErr == "" {
				j.info.ParseErr = firstLines(err.Error(), 3)
			}
		}
		sort.Strings(j.info.FMFiles)
	})

	// one request that names SEVERAL files in file_to_generate (what `protoc a.proto b.proto c.proto` sends): the
	// whole response - order of the files included - must be byte-identical for identical requests.  Verdict is
	// recorded on the (variant, first file) entry.
	{
		byVariant := map[string][]*job{}
		for _, j := range jobsList {
			if !j.v.Plain && len(j.spec.Imports) == 0 && len(j.spec.FD.Dependency) == 0 && j.run1 != nil && j.run1.Err == "" {
				byVariant[j.v.Name] = append(byVariant[j.v.Name], j)
			}
		}
		for _, js := range byVariant {
			if len(js) < 4 {
				continue
			}
			pick := []*job{js[0], js[len(js)/3], js[2*len(js)/3], js[len(js)-1]}
			var fds []*descriptorpb.FileDescriptorProto
			var names []string
			for _, j := range pick {
				fds = append(fds, j.spec.FD)
				names = append(names, j.spec.FD.GetName())
			}
			var first *miniprotoc.Result
			for run := 0; run < 6; run++ {
				r, err := miniprotoc.Run(*fmBin, pick[0].v.FMParam, fds, names, "", nil)
				if err != nil || r.Err != "" {
					break // (failures of single files are reported by their own entries)
				}
				if first == nil {
					first = r
				} else if string(r.Raw) != string(first.Raw) && pick[0].info.NonDeterm == "" {
					pick[0].info.NonDeterm = fmt.Sprintf("a request naming %d files (%s) produced different responses in runs 0 and %d (order of files: %v vs %v)", len(names), strings.Join(names, ", "), run, first.Order, r.Order)
				}
			}
		}
	}

	// build the message types alone first (fixture sanity), then with the fast-marshal files
	goBuild := func(pkg string) string {
		args := []string{"build"}
		if *modFile != "" {
			args = append(args, "-modfile="+*modFile)
		}
		args = append(args, "./"+pkg)
		cmd := exec.Command("go", args...)
		cmd.Dir = *outDir
		out, err := cmd.CombinedOutput()
		if err != nil {
			return firstLines(string(out), 6)
		}
		return ""
	}
	runAll(func(j *job) {
		if j.info.MsgGenErr != "" {
			return
		}
		pkg := "gencode/gen/" + j.v.Name + "/" + j.spec.Name
		if e := goBuild(pkg); e != "" {
			j.info.MsgGenErr = "message types do not build: " + e
			return
		}
		j.info.PlainBuildOK = true
	})
	withFM := func(j *job) {
		if !j.info.PlainBuildOK {
			return
		}
		if j.v.Plain {
			j.info.Usable = true
			return
		}
		if j.run1 == nil || j.run1.Err != "" || j.info.ParseErr != "" {
			return
		}
		pkg := "gencode/gen/" + j.v.Name + "/" + j.spec.Name
		for name, content := range j.run1.Files {
			writeFile(strip(name), content)
		}
		if e := goBuild(pkg); e != "" {
			j.info.BuildErr = e
			// remove the fast-marshal files again so that the package can still be linked as a plain one
			for name := range j.run1.Files {
				_ = os.Remove(filepath.Join(*outDir, strip(name)))
			}
			return
		}
		j.info.Usable = true
	}
	// an importer is compiled after the packages it imports have their final set of files
	for wave = 1; wave <= maxDepth; wave++ {
		runAll(withFM)
	}
	wave = 0

	// manifest, descriptor set, blank imports
	var infos []*FileInfo
	var imports []string
	for _, j := range jobsList {
		infos = append(infos, j.info)
		if j.info.PlainBuildOK {
			imports = append(imports, j.info.GoImport)
		}
	}
	sort.Strings(imports)
	mj, _ := json.MarshalIndent(map[string]any{"variants": variants(), "files": infos}, "", " ")
	writeFile("gencode/gen/manifest.json", string(mj))
	sb, err := proto.MarshalOptions{Deterministic: true}.Marshal(set)
	must(err)
	must(os.WriteFile(filepath.Join(genRoot, "corpus.binpb"), sb, 0o644))
	var b strings.Builder
	b.WriteString("// Code generated by vgen. DO NOT EDIT.\n\npackage gen\n\nimport (\n\t_ \"embed\"\n")
	for _, imp := range imports {
		fmt.Fprintf(&b, "\t_ %q\n", imp)
	}
	b.WriteString(")\n\n//go:embed manifest.json\nvar ManifestJSON []byte\n\n//go:embed corpus.binpb\nvar CorpusSet []byte\n")
	writeFile("gencode/gen/gen.go", b.String())

	usable, broken := 0, 0
	for _, in := range infos {
		if in.Usable {
			usable++
		} else {
			broken++
		}
	}
	fmt.Printf("vgen: %d (variant,file) packages, %d usable, %d not usable with fast-marshal code\n", len(infos), usable, broken)
}

func resErr(r *miniprotoc.Result) string {
	if r == nil {
		return ""
	}
	return r.Err
}

var reGogoImport = regexp.MustCompile(`"github.com/gogo/protobuf/proto"`)

// legacyRewrite turns protoc-gen-gogo output into what pre-APIv2 protoc-gen-go emitted: the same
// struct/XXX_ method shape, bound to github.com/golang/protobuf.
func legacyRewrite(src string) string {
	src = reGogoImport.ReplaceAllString(src, `"github.com/golang/protobuf/proto"`)
	src = strings.ReplaceAll(src, "proto.GoGoProtoPackageIsVersion3", "proto.ProtoPackageIsVersion3")
	src = strings.ReplaceAll(src, "proto.GoGoProtoPackageIsVersion2", "proto.ProtoPackageIsVersion2")
	return src
}

func firstLines(s string, n int) string {
	ls := strings.Split(strings.TrimSpace(s), "\n")
	if len(ls) > n {
		ls = ls[:n]
	}
	return strings.Join(ls, "\n")
}

func firstDiff(a, b *miniprotoc.Result) string {
	for _, n := range a.Order {
		if a.Files[n] != b.Files[n] {
			la, lb := strings.Split(a.Files[n], "\n"), strings.Split(b.Files[n], "\n")
			for i := 0; i < len(la) && i < len(lb); i++ {
				if la[i] != lb[i] {
					return fmt.Sprintf(": %s line %d: %q vs %q", n, i+1, la[i], lb[i])
				}
			}
			return ": " + n + " differs in length"
		}
	}
	return ""
}

func must(err error) {
	if err != nil {
		fmt.Fprintln(os.Stderr, "vgen:", err)
		os.Exit(2)
	}
}

// validateFile makes sure a programmatically built descriptor is one protoc would have produced.
func validateFile(fd *descriptorpb.FileDescriptorProto, deps []*descriptorpb.FileDescriptorProto) error {
	files := new(protoregistry.Files)
	for _, d := range deps {
		if d == fd {
			continue
		}
		f, err := protodesc.NewFile(d, files)
		if err != nil {
			return err
		}
		if err := files.RegisterFile(f); err != nil {
			return err
		}
	}
	_, err := protodesc.NewFile(fd, files)
	return err
}
