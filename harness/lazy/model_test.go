package lazy

import (
	"bytes"
	"errors"
	"fmt"
	"math"
	"sort"

	"github.com/CrowdStrike/csproto"
	"github.com/CrowdStrike/csproto/lazyproto"

	"verif/harness/internal/refwire"
)

// ---------- definitions as data ----------

// DefTag is one entry of a lazyproto.Def: a (possibly negative) tag, optionally with a nested definition.
type DefTag struct {
	Tag    int      `json:"tag"`
	Nested *DefSpec `json:"nested,omitempty"`
}

// DefSpec is the JSON-serialisable form of a lazyproto.Def.
type DefSpec struct {
	Tags []DefTag `json:"tags"`
}

func (s *DefSpec) build() lazyproto.Def {
	d := lazyproto.NewDef()
	if s == nil {
		return d
	}
	for _, t := range s.Tags {
		if t.Nested != nil {
			d[t.Tag] = t.Nested.build()
		} else {
			d.Tags(t.Tag)
		}
	}
	return d
}

func abs(x int) int {
	if x < 0 {
		return -x
	}
	return x
}

// declared reports whether |tag| is declared at this level and its nested definition (if any).
func (s *DefSpec) lookup(tag int) (declared bool, nested *DefSpec) {
	if s == nil {
		return false, nil
	}
	tag = abs(tag)
	for _, t := range s.Tags {
		if abs(t.Tag) == tag {
			declared = true
			if t.Nested != nil {
				nested = t.Nested
			}
		}
	}
	return
}

// ---------- reference model ----------

type occ struct {
	wt  int
	raw []byte // varint bytes / 4 or 8 bytes / payload
}

// refMsg is what a reference wire-format parser finds in one message for the declared tags.
type refMsg struct {
	wellFormed bool
	ambiguous  bool // contains something on which lenient parsers legitimately differ (field number 0)
	mixedWT    bool // a declared tag occurs with two wire types (outside the documented precondition)
	fields     map[int][]occ
}

func parseRef(b []byte, def *DefSpec) *refMsg {
	m := &refMsg{wellFormed: true, fields: map[int][]occ{}}
	off := 0
	for off < len(b) {
		k, _, err := refwire.Varint(b[off:])
		if err != nil {
			m.wellFormed = false
			return m
		}
		if k != 0 && k>>3 == 0 {
			m.ambiguous = true
			m.wellFormed = false
			return m
		}
		f, err := refwire.Next(b, off)
		if err != nil {
			m.wellFormed = false
			return m
		}
		if dcl, _ := def.lookup(f.Num); dcl {
			var raw []byte
			if f.WT == refwire.WTLen {
				raw = b[f.PayloadStart:f.End]
			} else {
				raw = b[f.ValStart:f.End]
			}
			if prev := m.fields[f.Num]; len(prev) > 0 && prev[0].wt != f.WT {
				m.mixedWT = true
			}
			m.fields[f.Num] = append(m.fields[f.Num], occ{wt: f.WT, raw: raw})
		}
		off = f.End
	}
	return m
}

// error classes
const (
	eNone       = ""
	eNotFound   = "notfound"   // errors.Is(err, ErrTagNotFound) (the two more specific errors wrap it)
	eNotDefined = "notdefined" // errors.Is(err, ErrTagNotDefined) || errors.Is(err, ErrNestingNotDefined)
	eMismatch   = "mismatch"   // *WireTypeMismatchError
	eOverflow   = "overflow"   // csproto.ErrValueOverflow
	eOther      = "other"      // any other error (malformed data for the requested interpretation)
	// the path leads through a nested payload that is not itself a well-formed message (or mixes wire types for
	// a requested number): the message is outside the property's "well-formed" quantifier for this request -
	// an error or a result, only no panic
	eUnconstrained = "unconstrained"
)

func classify(err error) string {
	if err == nil {
		return eNone
	}
	var wm *lazyproto.WireTypeMismatchError
	switch {
	case errors.Is(err, lazyproto.ErrTagNotDefined), errors.Is(err, lazyproto.ErrNestingNotDefined):
		return eNotDefined
	case errors.Is(err, lazyproto.ErrTagNotFound):
		return eNotFound
	case errors.As(err, &wm):
		return eMismatch
	case errors.Is(err, csproto.ErrValueOverflow):
		return eOverflow
	}
	return eOther
}

// outcome of an accessor, normalised
type outcome struct {
	errc   string
	u      []uint64
	b      [][]byte
	n      int            // number of results for NestedResults
	reread func() outcome // re-normalises the originally returned slice/string (nil for scalars and errors)
}

func (o outcome) String() string {
	if o.errc != "" {
		return "error:" + o.errc
	}
	if o.b != nil {
		return fmt.Sprintf("bytes%x", o.b)
	}
	return fmt.Sprintf("vals%v", o.u)
}

func (o outcome) equal(p outcome) bool {
	if o.errc != p.errc {
		// p is the model: data that cannot be parsed for the requested interpretation is any error
		// other than not-found / not-defined / mismatch (csproto reports an over-long varint as overflow)
		if p.errc == eOther && o.errc != "" {
			return true // (error identity is not part of the property: any error class will do)
		}
		if p.errc == eUnconstrained {
			return true
		}
		return false
	}
	if o.errc != "" {
		return true
	}
	if len(o.u) != len(p.u) || len(o.b) != len(p.b) {
		return false
	}
	for i := range o.u {
		if o.u[i] != p.u[i] {
			return false
		}
	}
	for i := range o.b {
		if !bytes.Equal(o.b[i], p.b[i]) {
			return false
		}
	}
	return true
}

type accessor struct {
	name   string
	slice  bool
	wt     int                             // the scalar wire type of the requested Go type
	isLen  bool                            // string / bytes
	conv   func(v uint64) (uint64, string) // value conversion for varint/fixed kinds; may return an error class
	width  int                             // 4 / 8 for fixed
	callFD func(fd *lazyproto.FieldData) outcome
	callR  func(r *lazyproto.DecodeResult, tag int) outcome
}

func okU(v uint64) (uint64, string) { return v, "" }

func mk1[T any](v T, err error, f func(T) uint64) outcome {
	if err != nil {
		return outcome{errc: classify(err)}
	}
	return outcome{u: []uint64{f(v)}}
}

// mkN also keeps a closure that re-reads the very slice that was handed out (for the
// "values stay intact after Close" clause of C14 and the aliasing clause of C10).
func mkN[T any](v []T, err error, f func(T) uint64) outcome {
	if err != nil {
		return outcome{errc: classify(err)}
	}
	read := func() outcome {
		o := outcome{u: make([]uint64, len(v))}
		for i, x := range v {
			o.u[i] = f(x)
		}
		return o
	}
	o := read()
	o.reread = read
	return o
}
func b2u(b bool) uint64 {
	if b {
		return 1
	}
	return 0
}

var accessors = []accessor{
	{name: "BoolValue", wt: 0, conv: func(v uint64) (uint64, string) { return b2u(v != 0), "" },
		callFD: func(fd *lazyproto.FieldData) outcome { v, err := fd.BoolValue(); return mk1(v, err, b2u) },
		callR:  func(r *lazyproto.DecodeResult, t int) outcome { v, err := r.BoolValue(t); return mk1(v, err, b2u) }},
	{name: "BoolValues", slice: true, wt: 0, conv: func(v uint64) (uint64, string) { return b2u(v != 0), "" },
		callFD: func(fd *lazyproto.FieldData) outcome { v, err := fd.BoolValues(); return mkN(v, err, b2u) },
		callR:  func(r *lazyproto.DecodeResult, t int) outcome { v, err := r.BoolValues(t); return mkN(v, err, b2u) }},
	{name: "UInt32Value", wt: 0, conv: convU32,
		callFD: func(fd *lazyproto.FieldData) outcome {
			v, err := fd.UInt32Value()
			return mk1(v, err, func(x uint32) uint64 { return uint64(x) })
		},
		callR: func(r *lazyproto.DecodeResult, t int) outcome {
			v, err := r.UInt32Value(t)
			return mk1(v, err, func(x uint32) uint64 { return uint64(x) })
		}},
	{name: "UInt32Values", slice: true, wt: 0, conv: convU32,
		callFD: func(fd *lazyproto.FieldData) outcome {
			v, err := fd.UInt32Values()
			return mkN(v, err, func(x uint32) uint64 { return uint64(x) })
		},
		callR: func(r *lazyproto.DecodeResult, t int) outcome {
			v, err := r.UInt32Values(t)
			return mkN(v, err, func(x uint32) uint64 { return uint64(x) })
		}},
	{name: "Int32Value", wt: 0, conv: convI32,
		callFD: func(fd *lazyproto.FieldData) outcome {
			v, err := fd.Int32Value()
			return mk1(v, err, func(x int32) uint64 { return uint64(int64(x)) })
		},
		callR: func(r *lazyproto.DecodeResult, t int) outcome {
			v, err := r.Int32Value(t)
			return mk1(v, err, func(x int32) uint64 { return uint64(int64(x)) })
		}},
	{name: "Int32Values", slice: true, wt: 0, conv: convI32,
		callFD: func(fd *lazyproto.FieldData) outcome {
			v, err := fd.Int32Values()
			return mkN(v, err, func(x int32) uint64 { return uint64(int64(x)) })
		},
		callR: func(r *lazyproto.DecodeResult, t int) outcome {
			v, err := r.Int32Values(t)
			return mkN(v, err, func(x int32) uint64 { return uint64(int64(x)) })
		}},
	{name: "SInt32Value", wt: 0, conv: convS32,
		callFD: func(fd *lazyproto.FieldData) outcome {
			v, err := fd.SInt32Value()
			return mk1(v, err, func(x int32) uint64 { return uint64(int64(x)) })
		},
		callR: func(r *lazyproto.DecodeResult, t int) outcome {
			v, err := r.SInt32Value(t)
			return mk1(v, err, func(x int32) uint64 { return uint64(int64(x)) })
		}},
	{name: "SInt32Values", slice: true, wt: 0, conv: convS32,
		callFD: func(fd *lazyproto.FieldData) outcome {
			v, err := fd.SInt32Values()
			return mkN(v, err, func(x int32) uint64 { return uint64(int64(x)) })
		},
		callR: func(r *lazyproto.DecodeResult, t int) outcome {
			v, err := r.SInt32Values(t)
			return mkN(v, err, func(x int32) uint64 { return uint64(int64(x)) })
		}},
	{name: "UInt64Value", wt: 0, conv: okU,
		callFD: func(fd *lazyproto.FieldData) outcome {
			v, err := fd.UInt64Value()
			return mk1(v, err, func(x uint64) uint64 { return x })
		},
		callR: func(r *lazyproto.DecodeResult, t int) outcome {
			v, err := r.UInt64Value(t)
			return mk1(v, err, func(x uint64) uint64 { return x })
		}},
	{name: "UInt64Values", slice: true, wt: 0, conv: okU,
		callFD: func(fd *lazyproto.FieldData) outcome {
			v, err := fd.UInt64Values()
			return mkN(v, err, func(x uint64) uint64 { return x })
		},
		callR: func(r *lazyproto.DecodeResult, t int) outcome {
			v, err := r.UInt64Values(t)
			return mkN(v, err, func(x uint64) uint64 { return x })
		}},
	{name: "Int64Value", wt: 0, conv: okU,
		callFD: func(fd *lazyproto.FieldData) outcome {
			v, err := fd.Int64Value()
			return mk1(v, err, func(x int64) uint64 { return uint64(x) })
		},
		callR: func(r *lazyproto.DecodeResult, t int) outcome {
			v, err := r.Int64Value(t)
			return mk1(v, err, func(x int64) uint64 { return uint64(x) })
		}},
	{name: "Int64Values", slice: true, wt: 0, conv: okU,
		callFD: func(fd *lazyproto.FieldData) outcome {
			v, err := fd.Int64Values()
			return mkN(v, err, func(x int64) uint64 { return uint64(x) })
		},
		callR: func(r *lazyproto.DecodeResult, t int) outcome {
			v, err := r.Int64Values(t)
			return mkN(v, err, func(x int64) uint64 { return uint64(x) })
		}},
	{name: "SInt64Value", wt: 0, conv: func(v uint64) (uint64, string) { return uint64(refwire.UnZigZag64(v)), "" },
		callFD: func(fd *lazyproto.FieldData) outcome {
			v, err := fd.SInt64Value()
			return mk1(v, err, func(x int64) uint64 { return uint64(x) })
		},
		callR: func(r *lazyproto.DecodeResult, t int) outcome {
			v, err := r.SInt64Value(t)
			return mk1(v, err, func(x int64) uint64 { return uint64(x) })
		}},
	{name: "SInt64Values", slice: true, wt: 0, conv: func(v uint64) (uint64, string) { return uint64(refwire.UnZigZag64(v)), "" },
		callFD: func(fd *lazyproto.FieldData) outcome {
			v, err := fd.SInt64Values()
			return mkN(v, err, func(x int64) uint64 { return uint64(x) })
		},
		callR: func(r *lazyproto.DecodeResult, t int) outcome {
			v, err := r.SInt64Values(t)
			return mkN(v, err, func(x int64) uint64 { return uint64(x) })
		}},
	{name: "Fixed32Value", wt: 5, width: 4, conv: okU,
		callFD: func(fd *lazyproto.FieldData) outcome {
			v, err := fd.Fixed32Value()
			return mk1(v, err, func(x uint32) uint64 { return uint64(x) })
		},
		callR: func(r *lazyproto.DecodeResult, t int) outcome {
			v, err := r.Fixed32Value(t)
			return mk1(v, err, func(x uint32) uint64 { return uint64(x) })
		}},
	{name: "Fixed32Values", slice: true, wt: 5, width: 4, conv: okU,
		callFD: func(fd *lazyproto.FieldData) outcome {
			v, err := fd.Fixed32Values()
			return mkN(v, err, func(x uint32) uint64 { return uint64(x) })
		},
		callR: func(r *lazyproto.DecodeResult, t int) outcome {
			v, err := r.Fixed32Values(t)
			return mkN(v, err, func(x uint32) uint64 { return uint64(x) })
		}},
	{name: "Fixed64Value", wt: 1, width: 8, conv: okU,
		callFD: func(fd *lazyproto.FieldData) outcome {
			v, err := fd.Fixed64Value()
			return mk1(v, err, func(x uint64) uint64 { return x })
		},
		callR: func(r *lazyproto.DecodeResult, t int) outcome {
			v, err := r.Fixed64Value(t)
			return mk1(v, err, func(x uint64) uint64 { return x })
		}},
	{name: "Fixed64Values", slice: true, wt: 1, width: 8, conv: okU,
		callFD: func(fd *lazyproto.FieldData) outcome {
			v, err := fd.Fixed64Values()
			return mkN(v, err, func(x uint64) uint64 { return x })
		},
		callR: func(r *lazyproto.DecodeResult, t int) outcome {
			v, err := r.Fixed64Values(t)
			return mkN(v, err, func(x uint64) uint64 { return x })
		}},
	{name: "Float32Value", wt: 5, width: 4, conv: okU,
		callFD: func(fd *lazyproto.FieldData) outcome {
			v, err := fd.Float32Value()
			return mk1(v, err, func(x float32) uint64 { return uint64(math.Float32bits(x)) })
		},
		callR: func(r *lazyproto.DecodeResult, t int) outcome {
			v, err := r.Float32Value(t)
			return mk1(v, err, func(x float32) uint64 { return uint64(math.Float32bits(x)) })
		}},
	{name: "Float32Values", slice: true, wt: 5, width: 4, conv: okU,
		callFD: func(fd *lazyproto.FieldData) outcome {
			v, err := fd.Float32Values()
			return mkN(v, err, func(x float32) uint64 { return uint64(math.Float32bits(x)) })
		},
		callR: func(r *lazyproto.DecodeResult, t int) outcome {
			v, err := r.Float32Values(t)
			return mkN(v, err, func(x float32) uint64 { return uint64(math.Float32bits(x)) })
		}},
	{name: "Float64Value", wt: 1, width: 8, conv: okU,
		callFD: func(fd *lazyproto.FieldData) outcome {
			v, err := fd.Float64Value()
			return mk1(v, err, math.Float64bits)
		},
		callR: func(r *lazyproto.DecodeResult, t int) outcome {
			v, err := r.Float64Value(t)
			return mk1(v, err, math.Float64bits)
		}},
	{name: "Float64Values", slice: true, wt: 1, width: 8, conv: okU,
		callFD: func(fd *lazyproto.FieldData) outcome {
			v, err := fd.Float64Values()
			return mkN(v, err, math.Float64bits)
		},
		callR: func(r *lazyproto.DecodeResult, t int) outcome {
			v, err := r.Float64Values(t)
			return mkN(v, err, math.Float64bits)
		}},
	{name: "StringValue", wt: 2, isLen: true,
		callFD: func(fd *lazyproto.FieldData) outcome { v, err := fd.StringValue(); return mkS1(v, err) },
		callR:  func(r *lazyproto.DecodeResult, t int) outcome { v, err := r.StringValue(t); return mkS1(v, err) }},
	{name: "StringValues", slice: true, wt: 2, isLen: true,
		callFD: func(fd *lazyproto.FieldData) outcome { v, err := fd.StringValues(); return mkSN(v, err) },
		callR:  func(r *lazyproto.DecodeResult, t int) outcome { v, err := r.StringValues(t); return mkSN(v, err) }},
	{name: "BytesValue", wt: 2, isLen: true,
		callFD: func(fd *lazyproto.FieldData) outcome { v, err := fd.BytesValue(); return mkB1(v, err) },
		callR:  func(r *lazyproto.DecodeResult, t int) outcome { v, err := r.BytesValue(t); return mkB1(v, err) }},
	{name: "BytesValues", slice: true, wt: 2, isLen: true,
		callFD: func(fd *lazyproto.FieldData) outcome { v, err := fd.BytesValues(); return mkBN(v, err) },
		callR:  func(r *lazyproto.DecodeResult, t int) outcome { v, err := r.BytesValues(t); return mkBN(v, err) }},
}

func mkB1(v []byte, err error) outcome {
	if err != nil {
		return outcome{errc: classify(err)}
	}
	read := func() outcome { return outcome{b: [][]byte{append([]byte{}, v...)}} }
	o := read()
	o.reread = read
	return o
}
func mkS1(v string, err error) outcome {
	if err != nil {
		return outcome{errc: classify(err)}
	}
	read := func() outcome { return outcome{b: [][]byte{[]byte(v)}} }
	o := read()
	o.reread = read
	return o
}
func mkBN(v [][]byte, err error) outcome {
	if err != nil {
		return outcome{errc: classify(err)}
	}
	read := func() outcome {
		o := outcome{b: make([][]byte, len(v))}
		for i, x := range v {
			o.b[i] = append([]byte{}, x...)
		}
		return o
	}
	o := read()
	o.reread = read
	return o
}
func mkSN(v []string, err error) outcome {
	if err != nil {
		return outcome{errc: classify(err)}
	}
	read := func() outcome {
		o := outcome{b: make([][]byte, len(v))}
		for i, x := range v {
			o.b[i] = []byte(x)
		}
		return o
	}
	o := read()
	o.reread = read
	return o
}

func convU32(v uint64) (uint64, string) {
	if v > math.MaxUint32 {
		return 0, eOverflow
	}
	return v, ""
}
func convI32(v uint64) (uint64, string) {
	if i := int64(v); i > math.MaxInt32 || i < math.MinInt32 {
		return 0, eOverflow
	}
	return v, ""
}
func convS32(v uint64) (uint64, string) { return uint64(int64(refwire.UnZigZag32(v))), "" }

func accByName(n string) *accessor {
	for i := range accessors {
		if accessors[i].name == n {
			return &accessors[i]
		}
	}
	return nil
}

// parseElems parses a run of elements of the accessor's Go type out of raw.
func (a *accessor) parseElems(raw []byte, single bool) ([]uint64, string) {
	var out []uint64
	for len(raw) > 0 {
		var v uint64
		if a.width > 0 {
			if len(raw) < a.width {
				return nil, eOther
			}
			for i := 0; i < a.width; i++ {
				v |= uint64(raw[i]) << (8 * uint(i))
			}
			raw = raw[a.width:]
		} else {
			x, n, err := refwire.Varint(raw)
			if err != nil {
				return nil, eOther
			}
			v, raw = x, raw[n:]
		}
		c, ec := a.conv(v)
		if ec != "" {
			return nil, ec
		}
		out = append(out, c)
		if single {
			break
		}
	}
	return out, ""
}

// expect computes what the accessor must return for the occurrences of one tag.
func (a *accessor) expect(occs []occ) outcome {
	if len(occs) == 0 {
		return outcome{errc: eNotFound}
	}
	fwt := occs[0].wt
	if !a.slice {
		if fwt != a.wt {
			return outcome{errc: eMismatch}
		}
		last := occs[len(occs)-1].raw
		if a.isLen {
			return outcome{b: [][]byte{last}}
		}
		vals, ec := a.parseElems(last, true)
		if ec != "" {
			return outcome{errc: ec}
		}
		if len(vals) == 0 {
			return outcome{errc: eOther}
		}
		return outcome{u: vals[:1]}
	}
	if a.isLen {
		if fwt != refwire.WTLen {
			return outcome{errc: eMismatch}
		}
		o := outcome{b: [][]byte{}}
		for _, oc := range occs {
			o.b = append(o.b, oc.raw)
		}
		return o
	}
	if fwt != a.wt && fwt != refwire.WTLen {
		return outcome{errc: eMismatch}
	}
	o := outcome{u: []uint64{}}
	for _, oc := range occs {
		vals, ec := a.parseElems(oc.raw, false)
		if ec != "" {
			return outcome{errc: ec}
		}
		o.u = append(o.u, vals...)
	}
	return o
}

func sortedTags(s *DefSpec) []int {
	var out []int
	seen := map[int]bool{}
	if s == nil {
		return nil
	}
	for _, t := range s.Tags {
		if !seen[abs(t.Tag)] {
			seen[abs(t.Tag)] = true
			out = append(out, abs(t.Tag))
		}
	}
	sort.Ints(out)
	return out
}
