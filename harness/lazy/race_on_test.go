//go:build race

package lazy

const raceEnabled = true
