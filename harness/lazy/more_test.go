package lazy

import (
	"encoding/json"
	"runtime"
	"runtime/debug"

	"verif/harness/internal/ev"
)

func replayMore(rp *ev.Replay) *ev.Failure {
	switch rp.Test {
	case "ccase":
		return replayCCase(rp.Case)
	case "ccold":
		var c struct{ K int }
		if err := json.Unmarshal(rp.Case, &c); err != nil {
			return ev.Failf(rp.Property+"/replay", "bad case: %v", err)
		}
		for i := 0; i < 10; i++ {
			if f := c15ColdRoundOnce(c.K); f != nil {
				return f
			}
		}
		return nil
	case "zcase":
		var c ZCase
		if err := json.Unmarshal(rp.Case, &c); err != nil {
			return ev.Failf(rp.Property+"/replay", "bad case: %v", err)
		}
		f, _ := oracleC10Lazy(&c)
		return f
	case "pcase":
		var c PCase
		if err := json.Unmarshal(rp.Case, &c); err != nil {
			return ev.Failf(rp.Property+"/replay", "bad case: %v", err)
		}
		defer runtime.GOMAXPROCS(runtime.GOMAXPROCS(1))
		defer debug.SetGCPercent(debug.SetGCPercent(-1))
		f, _ := oracleC14(&c)
		return f
	}
	return ev.Failf(rp.Property+"/replay", "unknown replay kind %s/%s", rp.Property, rp.Test)
}
