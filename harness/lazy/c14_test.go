package lazy

import (
	"encoding/json"
	"fmt"
	"runtime"
	"runtime/debug"
	"testing"

	"github.com/CrowdStrike/csproto/lazyproto"
	"pgregory.net/rapid"

	"verif/harness/internal/ev"
	"verif/harness/internal/refwire"
	"verif/harness/internal/wiregen"
)

// ---------- schema-driven inputs: several messages of differing shapes for ONE definition ----------

// LSField / LSchema fix a plan per number so that every input generated from it keeps one wire
// type per requested number (documented precondition) while counts and values vary.
type LSField struct {
	Num  int      `json:"num"`
	Plan string   `json:"plan"`
	Sub  *LSchema `json:"sub,omitempty"`
}
type LSchema struct {
	Fields []LSField `json:"fields"`
}

func genSchema(t *rapid.T, depth int) *LSchema {
	k := rapid.IntRange(1, 5).Draw(t, "nfields")
	nums := rapid.SliceOfNDistinct(rapid.SampledFrom(lazyNums), k, k, rapid.ID[int]).Draw(t, "nums")
	s := &LSchema{}
	for _, n := range nums {
		f := LSField{Num: n, Plan: rapid.SampledFrom(plans).Draw(t, "plan")}
		if f.Plan == "nested" {
			if depth == 0 {
				f.Plan = "bytes"
			} else {
				f.Sub = genSchema(t, depth-1)
			}
		}
		s.Fields = append(s.Fields, f)
	}
	return s
}

func (s *LSchema) def() *DefSpec {
	d := &DefSpec{}
	for _, f := range s.Fields {
		dt := DefTag{Tag: f.Num}
		if f.Sub != nil {
			dt.Nested = f.Sub.def()
		}
		d.Tags = append(d.Tags, dt)
	}
	return d
}

// genInstance draws one message for the schema; maxOcc bounds the repeat counts.
func genInstance(t *rapid.T, s *LSchema, maxOcc int) []byte {
	var pieces [][]byte
	for _, f := range s.Fields {
		nocc := rapid.SampledFrom([]int{0, 0, 1, 1, 2, 3, maxOcc}).Draw(t, "nocc")
		// 1 in 5: THIS message carries the number with another wire type than the schema's other messages do (packed
		// instead of unpacked and vice versa, a scalar where others have a string or a sub-message, ...) - legal: one
		// wire type per number is a rule within a message, not across the messages one Decoder sees
		plan := f.Plan
		if rapid.IntRange(0, 4).Draw(t, "otherwt") == 0 {
			alts := map[string][]string{"varint": {"packed-varint", "bytes", "fixed64"}, "packed-varint": {"varint", "fixed32"}, "fixed32": {"packed-fixed32", "varint"},
				"packed-fixed32": {"fixed32", "bytes"}, "fixed64": {"packed-fixed64", "varint"}, "packed-fixed64": {"fixed64", "bytes"}, "bytes": {"varint", "fixed32"}, "nested": {"varint", "fixed64"}}
			plan = rapid.SampledFrom(alts[f.Plan]).Draw(t, "altplan")
		}
		// 1 in 5 varint numbers of a message behave like a bool field: every value is 0 or 1
		u64 := wiregen.U64()
		if (plan == "varint" || plan == "packed-varint") && rapid.IntRange(0, 4).Draw(t, "boolish") == 0 {
			u64 = rapid.Uint64Range(0, 1)
		}
		for i := 0; i < nocc; i++ {
			var b []byte
			switch plan {
			case "varint":
				b = refwire.AppendVarint(refwire.AppendKey(nil, f.Num, 0), u64.Draw(t, "v"))
			case "fixed32":
				b = refwire.AppendFixed32(refwire.AppendKey(nil, f.Num, 5), uint32(wiregen.U64().Draw(t, "f32")))
			case "fixed64":
				b = refwire.AppendFixed64(refwire.AppendKey(nil, f.Num, 1), wiregen.U64().Draw(t, "f64"))
			case "bytes":
				b = refwire.AppendLen(refwire.AppendKey(nil, f.Num, 2), rapid.SliceOfN(rapid.Byte(), 0, 6).Draw(t, "payload"))
			case "packed-varint":
				var p []byte
				for j := rapid.IntRange(0, 6).Draw(t, "np"); j > 0; j-- {
					p = refwire.AppendVarint(p, u64.Draw(t, "pv"))
				}
				b = refwire.AppendLen(refwire.AppendKey(nil, f.Num, 2), p)
			case "packed-fixed32":
				var p []byte
				for j := rapid.IntRange(0, 6).Draw(t, "np"); j > 0; j-- {
					p = refwire.AppendFixed32(p, uint32(wiregen.U64().Draw(t, "pf")))
				}
				b = refwire.AppendLen(refwire.AppendKey(nil, f.Num, 2), p)
			case "packed-fixed64":
				var p []byte
				for j := rapid.IntRange(0, 6).Draw(t, "np"); j > 0; j-- {
					p = refwire.AppendFixed64(p, wiregen.U64().Draw(t, "pf"))
				}
				b = refwire.AppendLen(refwire.AppendKey(nil, f.Num, 2), p)
			case "nested":
				sub := genInstance(t, f.Sub, maxOcc)
				if rapid.IntRange(0, 11).Draw(t, "badsub") == 0 {
					// an element that is not itself a well-formed message (the outer message still is): the outer
					// Decode succeeds, descending into this element fails - and must leave nothing behind
					sub = append(append([]byte{}, sub...), rapid.SampledFrom([][]byte{{0x08}, {0x0a, 0x7f}, {0x80}, {0x0d, 0x01}}).Draw(t, "badtail")...)
				}
				b = refwire.AppendLen(refwire.AppendKey(nil, f.Num, 2), sub)
			}
			pieces = append(pieces, b)
		}
	}
	var out []byte
	for _, p := range rapid.Permutation(pieces).Draw(t, "order") {
		out = append(out, p...)
	}
	if out == nil {
		out = []byte{}
	}
	return out
}

func genSchemaQuery(t *rapid.T, s *LSchema) Query {
	var path []int
	cur := s
	for {
		f := rapid.SampledFrom(cur.Fields).Draw(t, "qf")
		if f.Sub != nil && rapid.IntRange(0, 3).Draw(t, "descend") != 0 {
			path = append(path, f.Num)
			cur = f.Sub
			continue
		}
		tag := f.Num
		if rapid.IntRange(0, 9).Draw(t, "absent") == 0 {
			tag = 11
		}
		q := Query{Path: append(path, tag)}
		var fam []string
		switch f.Plan {
		case "varint", "packed-varint":
			fam = varintAccs
		case "fixed32", "packed-fixed32":
			fam = f32Accs
		case "fixed64", "packed-fixed64":
			fam = f64Accs
		case "bytes":
			fam = lenAccs
		case "nested":
			fam = []string{"NestedResult", "NestedResults", "NestedResults", "BytesValue", "BytesValues"}
		}
		if rapid.IntRange(0, 7).Draw(t, "fit") != 0 {
			q.Acc = rapid.SampledFrom(fam).Draw(t, "acc")
		} else {
			q.Acc = rapid.SampledFrom(allAccNames()).Draw(t, "anyacc")
		}
		q.Route = rapid.SampledFrom([]string{"fd", "fdpath", "helper", "all", "all"}).Draw(t, "route")
		if len(q.Path) == 1 && q.Route == "all" {
			q.Route = "helper"
		}
		return q
	}
}

// ---------- programs ----------

// POp is one step of a pooled-decoder program.  Handle indices are taken modulo the live set.
type POp struct {
	Kind   string `json:"kind"` // decode | acc | range | close | nested | closenested
	Input  int    `json:"input,omitempty"`
	Handle int    `json:"handle,omitempty"`
	Query  *Query `json:"query,omitempty"`
}

// PCase: options, definition, a pool of inputs, and the program.
type PCase struct {
	Mode   int      `json:"mode"`
	MaxBuf int      `json:"max_buf"` // -1 = option not used
	Filter int      `json:"filter"`  // 0 none, 1 halving, 2 to zero, 3 negative (ignored)
	Def    DefSpec  `json:"def"`
	Inputs [][]byte `json:"inputs"`
	Prog   []POp    `json:"prog"`
}

type handle struct {
	input int
	res   *lazyproto.DecodeResult
}

type snapshot struct {
	desc   string
	reread func() outcome
	want   outcome
}

type pstats struct {
	recycledReads int
	recycles      int
	steps         int
	nestedHandles int
	nestedCloses  int
}

func oracleC14(c *PCase) (f *ev.Failure, st pstats) {
	stage := "setup"
	defer func() {
		if r := recover(); r != nil {
			f = ev.Failf("C14/panic/"+stage, "panic in %s: %v (options mode=%d maxbuf=%d filter=%d, def %s)", stage, r, c.Mode, c.MaxBuf, c.Filter, defString(&c.Def))
		}
	}()
	opts := []lazyproto.Option{lazyproto.WithMode(modeOf(c.Mode))}
	if c.MaxBuf >= 0 {
		opts = append(opts, lazyproto.WithMaxBufferSize(c.MaxBuf))
	}
	switch c.Filter {
	case 1:
		opts = append(opts, lazyproto.WithBufferFilterFunc(func(n int) int { return n / 2 }))
	case 2:
		opts = append(opts, lazyproto.WithBufferFilterFunc(func(n int) int { return 0 }))
	case 3:
		opts = append(opts, lazyproto.WithBufferFilterFunc(func(n int) int { return -1 }))
	}
	dec, err := lazyproto.NewDecoder(c.Def.build(), opts...)
	if err != nil {
		return ev.Failf("C14/newdecoder-error", "NewDecoder: %v", err), st
	}
	var live []*handle
	var nestedHandles []*lazyproto.DecodeResult // nested results kept by the program; only ever Close()d again
	var snaps []snapshot
	closedPtrs := map[*lazyproto.DecodeResult]bool{}
	recycled := map[*lazyproto.DecodeResult]bool{}
	checkSnaps := func(after string) *ev.Failure {
		for _, s := range snaps {
			if now := s.reread(); !now.equal(s.want) {
				return ev.Failf("C14/handed-out-value-changed", "safe mode: %s was %v when handed out and reads %v after %s", s.desc, s.want, now, after)
			}
		}
		return nil
	}
	for i, op := range c.Prog {
		st.steps++
		switch op.Kind {
		case "decode":
			stage = "Decode"
			in := append([]byte{}, c.Inputs[op.Input%len(c.Inputs)]...)
			res, err := dec.Decode(in)
			if c.Mode == 0 {
				// safe mode: the caller may overwrite / recycle its buffer right away (C10, lazyproto half)
				for j := range in {
					in[j] = 0xEE
				}
			}
			if err != nil {
				return ev.Failf("C14/decode-error", "step %d: Decode of a well-formed input %x failed: %v", i, in, err), st
			}
			if res != nil && closedPtrs[res] {
				recycled[res] = true
				delete(closedPtrs, res)
				st.recycles++
			}
			live = append(live, &handle{input: op.Input % len(c.Inputs), res: res})
		case "acc":
			if len(live) == 0 {
				continue
			}
			h := live[op.Handle%len(live)]
			q := *op.Query
			stage = accFamily(q)
			lc := &LCase{In: c.Inputs[h.input], Def: c.Def}
			want := evalModel(lc, q)
			got := evalReal(h.res, q)
			if recycled[h.res] {
				st.recycledReads++
			}
			if len(lc.In) == 0 && len(got) == 1 && len(want) == 1 && got[0].errc == eNotDefined && want[0].errc == eNotFound {
				continue
			}
			if !sameOutcomes(got, want) {
				kind := "wrong-value"
				if recycled[h.res] {
					kind = "wrong-value-on-recycled-result"
				}
				return ev.Failf("C14/"+kind+"/"+accFamily(q), "step %d: query %+v on the result of input #%d (%x): got %v, that input alone gives %v (mode=%d maxbuf=%d filter=%d def %s)", i, q, h.input, lc.In, got, want, c.Mode, c.MaxBuf, c.Filter, defString(&c.Def)), st
			}
			if c.Mode == 0 {
				for _, o := range got {
					if o.reread != nil {
						snaps = append(snaps, snapshot{desc: fmt.Sprintf("%s%v of input #%d (step %d)", q.Acc, q.Path, h.input, i), reread: o.reread, want: o})
					}
				}
			}
		case "range":
			if len(live) == 0 {
				continue
			}
			h := live[op.Handle%len(live)]
			stage = "Range"
			m := parseRef(c.Inputs[h.input], &c.Def)
			wantTags := sortedTags(&c.Def)
			var gotTags []int
			bad := ""
			h.res.Range(func(tag int, fd *lazyproto.FieldData) bool {
				gotTags = append(gotTags, tag)
				if present := len(m.fields[tag]) > 0; present != (fd != nil) {
					bad = fmt.Sprintf("tag %d: present=%v but field non-nil=%v", tag, present, fd != nil)
				}
				return true
			})
			if h.res == nil {
				wantTags = nil // nothing was decoded (empty input): nothing to visit
			}
			if bad != "" || fmt.Sprint(gotTags) != fmt.Sprint(wantTags) {
				return ev.Failf("C14/range", "step %d: Range on the result of input #%d visited %v (%s), the definition declares %v", i, h.input, gotTags, bad, wantTags), st
			}
		case "nested":
			var ntags []int
			for _, dt := range c.Def.Tags {
				if dt.Nested != nil && dt.Tag > 0 {
					ntags = append(ntags, dt.Tag)
				}
			}
			if len(live) == 0 || len(ntags) == 0 {
				continue
			}
			h := live[op.Handle%len(live)]
			stage = "NestedResult"
			if nr, err := h.res.NestedResult(ntags[op.Input%len(ntags)]); err == nil && nr != nil {
				nestedHandles = append(nestedHandles, nr)
				st.nestedHandles++
				// the kept nested result hands out results of its own (second level) before the program closes it
				touchSecondLevel(nr, &c.Def, ntags[op.Input%len(ntags)])
			}
		case "closenested":
			if len(nestedHandles) == 0 {
				continue
			}
			k := op.Handle % len(nestedHandles)
			stage = "Close(nested)"
			if err := nestedHandles[k].Close(); err != nil {
				return ev.Failf("C14/close-error", "step %d: Close on a nested result: %v", i, err), st
			}
			nestedHandles = append(nestedHandles[:k], nestedHandles[k+1:]...)
			st.nestedCloses++
		case "close":
			if len(live) == 0 {
				continue
			}
			k := op.Handle % len(live)
			h := live[k]
			stage = "Close"
			if err := h.res.Close(); err != nil {
				return ev.Failf("C14/close-error", "step %d: Close: %v", i, err), st
			}
			if h.res != nil {
				closedPtrs[h.res] = true
				delete(recycled, h.res)
			}
			live = append(live[:k], live[k+1:]...)
		}
		stage = "snapshot-check"
		if f := checkSnaps(fmt.Sprintf("step %d (%s)", i, op.Kind)); f != nil {
			return f, st
		}
	}
	// close everything that is still open, then decode every input once more and re-check
	stage = "final-close"
	for _, h := range live {
		_ = h.res.Close()
	}
	stage = "final-decode"
	for _, in := range c.Inputs {
		r, err := dec.Decode(in)
		if err != nil {
			return ev.Failf("C14/decode-error", "final Decode failed: %v", err), st
		}
		_ = r.Close()
	}
	stage = "snapshot-check"
	if f := checkSnaps("closing everything and decoding every input again"); f != nil {
		return f, st
	}
	return nil, st
}

// touchSecondLevel asks nr (the nested result for tag of def) for the nested results of every nested tag of its own.
func touchSecondLevel(nr *lazyproto.DecodeResult, def *DefSpec, tag int) {
	_, sub := def.lookup(tag)
	if sub == nil {
		return
	}
	for _, dt := range sub.Tags {
		if dt.Nested != nil && dt.Tag > 0 {
			_, _ = nr.NestedResults(dt.Tag)
			_, _ = nr.NestedResult(dt.Tag)
		}
	}
}

func genPCase(t *rapid.T) *PCase {
	s := genSchema(t, 2)
	c := &PCase{Def: *s.def()}
	c.Mode = rapid.IntRange(0, 1).Draw(t, "mode")
	c.MaxBuf = rapid.SampledFrom([]int{-1, -1, 0, 1, 2, 1024}).Draw(t, "maxbuf")
	c.Filter = rapid.SampledFrom([]int{0, 0, 1, 2, 3}).Draw(t, "filter")
	n := rapid.IntRange(2, 6).Draw(t, "ninputs")
	for i := 0; i < n; i++ {
		if i > 0 && rapid.IntRange(0, 2).Draw(t, "samedshape") == 0 {
			// the SAME shape as an earlier input (same numbers, same occurrence counts) with other contents: whatever a
			// pooled object remembers about the previous message's shape matches, only the values must not
			c.Inputs = append(c.Inputs, variation(c.Inputs[rapid.IntRange(0, i-1).Draw(t, "shapeof")]))
			continue
		}
		c.Inputs = append(c.Inputs, genInstance(t, s, 5))
	}
	// a small pool of queries that are repeated across handles: the same accessor on the same tag of a
	// recycled result is what exposes state cached on the pooled object
	var qpool []Query
	for i := rapid.IntRange(1, 3).Draw(t, "nqpool"); i > 0; i-- {
		q := genSchemaQuery(t, s)
		if rapid.Bool().Draw(t, "sliceacc") && len(q.Acc) > 0 && q.Acc[len(q.Acc)-1] != 's' && q.Acc != "NestedResult" {
			q.Acc += "s" // XxxValue -> XxxValues
		}
		qpool = append(qpool, q)
	}
	if rapid.IntRange(0, 3).Draw(t, "pingpong") == 0 {
		// scripted: every pooled query is asked of one input after the other, each result closed before the next
		// Decode - the same accessor on the same tag in successive lives of the pooled object
		for round := 0; round < 2; round++ {
			for i := range c.Inputs {
				c.Prog = append(c.Prog, POp{Kind: "decode", Input: i})
				for qi := range qpool {
					q := qpool[qi]
					c.Prog = append(c.Prog, POp{Kind: "acc", Handle: 0, Query: &q})
				}
				c.Prog = append(c.Prog, POp{Kind: "close", Handle: 0})
			}
		}
		return c
	}
	nops := rapid.IntRange(1, 40).Draw(t, "nops")
	for i := 0; i < nops; i++ {
		op := POp{Handle: rapid.IntRange(0, 7).Draw(t, "handle")}
		switch rapid.IntRange(0, 11).Draw(t, "opk") {
		case 10:
			op.Kind = "nested" // keep a handle to a nested result of a live result
			op.Input = rapid.IntRange(0, 7).Draw(t, "ntag")
		case 11:
			op.Kind = "closenested" // Close on a nested handle (documented no-op), also after its parent was closed
		case 0, 1, 2:
			op.Kind = "decode"
			op.Input = rapid.IntRange(0, n-1).Draw(t, "input")
		case 3, 4, 5, 6:
			op.Kind = "acc"
			var q Query
			if rapid.IntRange(0, 2).Draw(t, "frompool") != 0 {
				q = rapid.SampledFrom(qpool).Draw(t, "pq")
			} else {
				q = genSchemaQuery(t, s)
			}
			op.Query = &q
		case 7:
			op.Kind = "range"
		default:
			op.Kind = "close"
		}
		c.Prog = append(c.Prog, op)
	}
	return c
}

const ruleC14 = "case = options {safe, fast} x WithMaxBufferSize {unset, 0, 1, 2, 1024} x buffer filter {none, halving, to-zero, negative} + one definition (schema with 1..5 numbers, nested to depth 2) + a pool of 2..6 inputs of differing shapes (each number 0..5 occurrences, nested counts above and below the buffer limit, 1 in 12 nested elements not itself a well-formed message, 1 in 5 numbers carried with another wire type than in the pool's other inputs; 1 in 3 inputs has exactly the shape of an earlier one - same numbers and occurrence counts - with other contents) + a program of <= 40 random ops (1 in 4: a scripted program that asks every pooled query of one input after the other, closing each result before the next Decode) {Decode(i), accessor query incl. NestedResult(s) paths, Range, Close, keep a NestedResult handle (which in turn hands out the nested results of its own nested tags), Close a kept nested handle - before or after its parent was closed} on one Decoder; " +
	"model: every live handle remembers its input; each accessor must equal the reference parse of THAT input; in safe mode every slice/string handed out is re-read after every later step (incl. after Close and after the decoder re-used the pooled object) and must be unchanged; no op panics; finally everything is closed, every input decoded again and the hand-outs re-checked; " +
	"non-trivial = a program in which a recycled result (same pointer as an earlier closed one) is read; distinct by case content"

func TestC14(t *testing.T) {
	rec := ev.New("C14", ruleC14)
	defer rec.Write()
	defer func() { t.Log(rec.Summary()) }()
	// sync.Pool is only deterministic with one P and no GC inside a case: pin both so that a failing
	// program replays (and shrinks) reliably; the GC runs between cases
	defer runtime.GOMAXPROCS(runtime.GOMAXPROCS(1))
	defer debug.SetGCPercent(debug.SetGCPercent(-1))
	ncase := 0
	ev.Rapid(t, ev.N(12000, 400000), 14, func(rt *rapid.T) {
		if ncase++; ncase%500 == 0 {
			runtime.GC()
		}
		c := genPCase(rt)
		rec.Journal("pcase", c)
		f, st := oracleC14(c)
		rec.Eval(int64(st.steps))
		rec.Class(fmt.Sprintf("options/mode=%d", c.Mode))
		rec.Class(fmt.Sprintf("options/maxbuf=%d", c.MaxBuf))
		rec.Class(fmt.Sprintf("options/filter=%d", c.Filter))
		rec.ClassN("recycled-results", int64(st.recycles))
		rec.ClassN("nested-handles-closed-explicitly", int64(st.nestedCloses))
		if st.recycledReads > 0 {
			rec.Class("program/reads-a-recycled-result")
			cj, _ := json.Marshal(c)
			rec.NonTrivial(ev.FP(cj))
			rec.Sample(fmt.Sprintf("mode=%d,maxbuf=%d", c.Mode, c.MaxBuf), c)
		}
		rec.Check(rt, "pcase", c, f)
	})
	rec.JournalClear()
}
