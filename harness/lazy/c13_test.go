package lazy

import (
	"encoding/json"
	"fmt"
	"math"
	"testing"

	"github.com/CrowdStrike/csproto"
	"github.com/CrowdStrike/csproto/lazyproto"
	"pgregory.net/rapid"

	"verif/harness/internal/ev"
	"verif/harness/internal/refwire"
	"verif/harness/internal/wiregen"
)

// Query asks for one accessor on one tag path.
type Query struct {
	Path  []int  `json:"path"`  // the last element is the tag the accessor is applied to (may be negative)
	Acc   string `json:"acc"`   // accessor name, or "NestedResult"/"NestedResults" to stop at the nested result
	Route string `json:"route"` // fd | fdpath | helper | all
}

// LCase is one lazy-decoding case.
type LCase struct {
	In      []byte  `json:"in"`
	Def     DefSpec `json:"def"`
	Mode    int     `json:"mode"`              // 0 safe, 1 fast
	Entry   int     `json:"entry"`             // 0 = Decode() function (safe only), 1 = NewDecoder().Decode, 2 = used Decoder (see Warm)
	MaxBuf  int     `json:"max_buf,omitempty"` // entry 2: WithMaxBufferSize(MaxBuf)
	Warm    []byte  `json:"warm,omitempty"`    // entry 2: decoded, queried and closed on the same Decoder before In
	Queries []Query `json:"queries"`
}

// ---------- model evaluation ----------

// descend follows q.Path[:n-1] in the model.  It returns the list of (payload, def) contexts reached
// (several for route "all") or an error outcome.
type mctx struct {
	b   []byte
	def *DefSpec
}

func modelDescend(root mctx, path []int, all bool) ([]mctx, *outcome) {
	cur := []mctx{root}
	for i, t := range path {
		var next []mctx
		for _, c := range cur {
			declared, nested := c.def.lookup(t)
			if !declared || nested == nil {
				return nil, &outcome{errc: eNotDefined}
			}
			m := parseRef(c.b, c.def)
			occs := m.fields[abs(t)]
			if len(occs) == 0 {
				return nil, &outcome{errc: eNotFound}
			}
			if occs[0].wt != refwire.WTLen {
				return nil, &outcome{errc: eMismatch}
			}
			pick := occs[len(occs)-1:]
			if all && i == len(path)-1 {
				pick = occs
			}
			for _, oc := range pick {
				sub := parseRef(oc.raw, nested)
				if !sub.wellFormed || sub.mixedWT {
					return nil, &outcome{errc: eUnconstrained}
				}
				next = append(next, mctx{b: oc.raw, def: nested})
			}
		}
		cur = next
	}
	return cur, nil
}

func evalModel(c *LCase, q Query) []outcome {
	n := len(q.Path)
	nestPath, last := q.Path[:n-1], q.Path[n-1]
	if q.Acc == "NestedResult" || q.Acc == "NestedResults" {
		nestPath = q.Path
	}
	all := q.Route == "all"
	if q.Acc == "NestedResult" || q.Acc == "NestedResults" {
		all = q.Acc == "NestedResults"
	}
	ctxs, eo := modelDescend(mctx{b: c.In, def: &c.Def}, nestPath, all)
	if eo != nil {
		return []outcome{*eo}
	}
	if q.Acc == "NestedResult" || q.Acc == "NestedResults" {
		return []outcome{{n: len(ctxs)}}
	}
	a := accByName(q.Acc)
	var out []outcome
	for _, cx := range ctxs {
		if declared, _ := cx.def.lookup(last); !declared {
			out = append(out, outcome{errc: eNotDefined})
			continue
		}
		m := parseRef(cx.b, cx.def)
		out = append(out, a.expect(m.fields[abs(last)]))
	}
	return out
}

// ---------- real evaluation ----------

func evalReal(root *lazyproto.DecodeResult, q Query) []outcome {
	n := len(q.Path)
	if q.Acc == "NestedResult" || q.Acc == "NestedResults" {
		r := root
		for _, t := range q.Path[:n-1] {
			var err error
			if r, err = r.NestedResult(t); err != nil {
				return []outcome{{errc: classify(err)}}
			}
		}
		if q.Acc == "NestedResult" {
			nr, err := r.NestedResult(q.Path[n-1])
			if err != nil {
				return []outcome{{errc: classify(err)}}
			}
			_ = nr.Close() // documented no-op on nested results
			return []outcome{{n: 1}}
		}
		rs, err := r.NestedResults(q.Path[n-1])
		if err != nil {
			return []outcome{{errc: classify(err)}}
		}
		return []outcome{{n: len(rs)}}
	}
	a := accByName(q.Acc)
	last := q.Path[n-1]
	if q.Route == "fdpath" {
		fd, err := root.FieldData(q.Path...)
		if err != nil {
			return []outcome{{errc: classify(err)}}
		}
		return []outcome{a.callFD(fd)}
	}
	rs := []*lazyproto.DecodeResult{root}
	for i, t := range q.Path[:n-1] {
		if q.Route == "all" && i == n-2 {
			var next []*lazyproto.DecodeResult
			for _, r := range rs {
				sub, err := r.NestedResults(t)
				if err != nil {
					return []outcome{{errc: classify(err)}}
				}
				next = append(next, sub...)
			}
			rs = next
			continue
		}
		r, err := rs[0].NestedResult(t)
		if err != nil {
			return []outcome{{errc: classify(err)}}
		}
		rs = []*lazyproto.DecodeResult{r}
	}
	var out []outcome
	for _, r := range rs {
		switch q.Route {
		case "helper", "all":
			out = append(out, a.callR(r, last))
		default:
			fd, err := r.GetFieldData(last)
			if err != nil {
				out = append(out, outcome{errc: classify(err)})
			} else {
				out = append(out, a.callFD(fd))
			}
		}
	}
	return out
}

func sameOutcomes(a, b []outcome) bool {
	if len(b) == 1 && b[0].errc == eUnconstrained {
		return true // (b is the model)
	}
	if len(a) != len(b) {
		return false
	}
	for i := range a {
		if a[i].n != b[i].n || !a[i].equal(b[i]) {
			return false
		}
	}
	return true
}

func accFamily(q Query) string {
	if q.Acc == "NestedResult" || q.Acc == "NestedResults" {
		return q.Acc
	}
	return q.Acc
}

func modeOf(m int) csproto.DecoderMode {
	if m == 1 {
		return csproto.DecoderModeFast
	}
	return csproto.DecoderModeSafe
}

// oracleC13 decodes and runs every query against the model.
func oracleC13(c *LCase) (f *ev.Failure, wellFormed bool) {
	stage := "decode"
	defer func() {
		if r := recover(); r != nil {
			f = ev.Failf("C13/panic/"+stage, "panic in %s: %v (input %.64x def %s)", stage, r, c.In, defString(&c.Def))
		}
	}()
	root := parseRef(c.In, &c.Def)
	wellFormed = root.wellFormed && !root.mixedWT
	def := c.Def.build()
	if err := def.Validate(); err != nil {
		panic("harness: generated definition does not validate: " + err.Error())
	}
	var res *lazyproto.DecodeResult
	var err error
	if c.Entry == 0 {
		var v lazyproto.DecodeResult
		v, err = lazyproto.Decode(c.In, def)
		res = &v
	} else {
		var dec *lazyproto.Decoder
		opts := []lazyproto.Option{lazyproto.WithMode(modeOf(c.Mode))}
		if c.Entry == 2 {
			opts = append(opts, lazyproto.WithMaxBufferSize(c.MaxBuf))
		}
		dec, err = lazyproto.NewDecoder(def, opts...)
		if err != nil {
			return ev.Failf("C13/newdecoder-error", "NewDecoder on a valid definition: %v", err), wellFormed
		}
		if c.Entry == 2 {
			// a Decoder that has been used before: what the earlier message was must not matter
			stage = "warm-up"
			if w, werr := dec.Decode(c.Warm); werr == nil {
				for _, q := range c.Queries {
					_ = evalReal(w, q)
				}
				_ = w.Close()
			}
			stage = "decode"
		}
		res, err = dec.Decode(c.In)
	}
	if !wellFormed {
		// arbitrary bytes: error or result, never a panic; exercise every query on whatever came back
		if err == nil {
			for _, q := range c.Queries {
				stage = "malformed/" + accFamily(q)
				_ = evalReal(res, q)
			}
			stage = "malformed/Range"
			if res != nil {
				res.Range(func(int, *lazyproto.FieldData) bool { return true })
			}
			stage = "malformed/Close"
			_ = res.Close()
		}
		return nil, false
	}
	if err != nil {
		return ev.Failf("C13/decode-error", "decoding a well-formed message failed: %v (input %.64x def %s)", err, c.In, defString(&c.Def)), true
	}
	emptyRoot := len(c.In) == 0 || len(c.Def.Tags) == 0
	for _, q := range c.Queries {
		stage = accFamily(q)
		want := evalModel(c, q)
		got := evalReal(res, q)
		if emptyRoot && len(got) == 1 && len(want) == 1 && got[0].errc == eNotDefined && want[0].errc == eNotFound {
			continue // empty input / empty definition: the (nil or empty) result reports every tag as not defined
		}
		if !sameOutcomes(got, want) {
			kind := "wrong-value"
			if len(got) == 1 && len(want) == 1 {
				switch {
				case want[0].errc != "" && got[0].errc == "":
					kind = "missing-" + want[0].errc + "-error"
				case want[0].errc == "" && got[0].errc != "":
					kind = "unexpected-" + got[0].errc + "-error"
				case want[0].errc != got[0].errc:
					kind = "error-class-" + got[0].errc + "-for-" + want[0].errc
				}
			}
			return ev.Failf("C13/"+kind+"/"+accFamily(q), "query %+v on input %.64x with def %s (mode %d, entry %d): got %v, the reference parse gives %v", q, c.In, defString(&c.Def), c.Mode, c.Entry, got, want), true
		}
	}
	stage = "Close"
	if err := res.Close(); err != nil {
		return ev.Failf("C13/close-error", "Close: %v", err), true
	}
	return nil, true
}

func defString(d *DefSpec) string {
	j, _ := json.Marshal(d)
	return string(j)
}

// ---------- generators ----------

var lazyNums = []int{1, 2, 3, 4, 5, 6, 7, 15, 16, 31, 32, 63, 64, 65, 127, 128, 2047, 2048, 18999, 20000, 1 << 26, 1<<29 - 1}

type numInfo struct {
	num      int
	plan     string
	declared bool
	sub      []numInfo // for nested plans: union of the numbers used in the sub-messages
	present  bool
}

var plans = []string{"varint", "varint", "fixed32", "fixed64", "bytes", "bytes", "packed-varint", "packed-fixed32", "packed-fixed64", "nested", "nested"}

func genLMsg(t *rapid.T, depth int) ([]byte, []numInfo, *DefSpec) {
	k := rapid.IntRange(0, 5).Draw(t, "nnums")
	nums := rapid.SliceOfNDistinct(rapid.SampledFrom(lazyNums), k, k, rapid.ID[int]).Draw(t, "nums")
	type piece struct{ b []byte }
	var pieces []piece
	var infos []numInfo
	def := &DefSpec{}
	for _, num := range nums {
		ni := numInfo{num: num, declared: rapid.IntRange(0, 3).Draw(t, "declared") != 0}
		ni.plan = rapid.SampledFrom(plans).Draw(t, "plan")
		if ni.plan == "nested" && depth == 0 {
			ni.plan = "bytes"
		}
		nocc := rapid.SampledFrom([]int{0, 1, 1, 1, 2, 3, 5}).Draw(t, "nocc")
		ni.present = nocc > 0
		var subDef *DefSpec
		for i := 0; i < nocc; i++ {
			var b []byte
			switch ni.plan {
			case "varint":
				b = refwire.AppendVarint(refwire.AppendKey(nil, num, 0), wiregen.U64().Draw(t, "v"))
			case "fixed32":
				b = refwire.AppendFixed32(refwire.AppendKey(nil, num, 5), uint32(wiregen.U64().Draw(t, "f32")))
			case "fixed64":
				b = refwire.AppendFixed64(refwire.AppendKey(nil, num, 1), wiregen.U64().Draw(t, "f64"))
			case "bytes":
				p := []byte{}
				if rapid.IntRange(0, 3).Draw(t, "emptystr") != 0 {
					p = wiregen.Bytes(false).Draw(t, "payload")
				}
				b = refwire.AppendLen(refwire.AppendKey(nil, num, 2), p)
			case "packed-varint":
				var p []byte
				for j := rapid.IntRange(0, 4).Draw(t, "np"); j > 0; j-- {
					p = refwire.AppendVarint(p, wiregen.U64().Draw(t, "pv"))
				}
				b = refwire.AppendLen(refwire.AppendKey(nil, num, 2), p)
			case "packed-fixed32":
				var p []byte
				for j := rapid.IntRange(0, 4).Draw(t, "np"); j > 0; j-- {
					p = refwire.AppendFixed32(p, uint32(wiregen.U64().Draw(t, "pf")))
				}
				b = refwire.AppendLen(refwire.AppendKey(nil, num, 2), p)
			case "packed-fixed64":
				var p []byte
				for j := rapid.IntRange(0, 4).Draw(t, "np"); j > 0; j-- {
					p = refwire.AppendFixed64(p, wiregen.U64().Draw(t, "pf"))
				}
				b = refwire.AppendLen(refwire.AppendKey(nil, num, 2), p)
			case "nested":
				var p []byte
				if rapid.IntRange(0, 3).Draw(t, "emptymsg") != 0 {
					var sub []numInfo
					var sd *DefSpec
					p, sub, sd = genLMsg(t, depth-1)
					ni.sub = append(ni.sub, sub...)
					if subDef == nil {
						subDef = sd
					} else {
						subDef.Tags = append(subDef.Tags, sd.Tags...)
					}
				}
				b = refwire.AppendLen(refwire.AppendKey(nil, num, 2), p)
			}
			pieces = append(pieces, piece{b})
		}
		if !ni.declared && nocc > 0 && rapid.IntRange(0, 2).Draw(t, "mixed") == 0 {
			// an unrequested number may use several wire types
			pieces = append(pieces, piece{refwire.AppendVarint(refwire.AppendKey(nil, num, 0), 7)})
			pieces = append(pieces, piece{refwire.AppendFixed32(refwire.AppendKey(nil, num, 5), 9)})
		}
		if ni.declared {
			dt := DefTag{Tag: num}
			switch {
			case ni.plan == "nested" && rapid.IntRange(0, 3).Draw(t, "asnested") != 0:
				if subDef == nil {
					subDef = &DefSpec{Tags: []DefTag{{Tag: 1}}}
				}
				dt.Nested = dedupDef(subDef)
				if rapid.IntRange(0, 2).Draw(t, "alsoraw") == 0 {
					def.Tags = append(def.Tags, DefTag{Tag: -num})
				}
			case ni.plan != "nested" && rapid.IntRange(0, 7).Draw(t, "misfit") == 0:
				dt.Nested = &DefSpec{Tags: []DefTag{{Tag: 1}}} // declared as nested although it is not a message
			case rapid.IntRange(0, 5).Draw(t, "negonly") == 0:
				dt.Tag = -num
			}
			def.Tags = append(def.Tags, dt)
		}
		infos = append(infos, ni)
	}
	// absent numbers in the definition
	for i := rapid.IntRange(0, 2).Draw(t, "nabsent"); i > 0; i-- {
		n := rapid.SampledFrom([]int{8, 9, 10, 17, 300, 1 << 20, 1<<28 + 3}).Draw(t, "absent")
		dt := DefTag{Tag: n}
		if rapid.Bool().Draw(t, "absentnested") {
			dt.Nested = &DefSpec{Tags: []DefTag{{Tag: 1}}}
		}
		def.Tags = append(def.Tags, dt)
		infos = append(infos, numInfo{num: n, plan: "absent", declared: true})
	}
	def = dedupDef(def)
	// interleave occurrences
	perm := rapid.Permutation(pieces).Draw(t, "order")
	var out []byte
	for _, p := range perm {
		out = append(out, p.b...)
	}
	return out, infos, def
}

// dedupDef keeps one entry per signed tag (later entries win, like map assignment) so that the
// JSON form and the built lazyproto.Def agree.
func dedupDef(d *DefSpec) *DefSpec {
	out := &DefSpec{}
	idx := map[int]int{}
	for _, t := range d.Tags {
		if i, ok := idx[t.Tag]; ok {
			if t.Nested != nil || out.Tags[i].Nested == nil {
				out.Tags[i] = t
			}
			continue
		}
		idx[t.Tag] = len(out.Tags)
		out.Tags = append(out.Tags, t)
	}
	return out
}

var varintAccs = []string{"BoolValue", "BoolValues", "UInt32Value", "UInt32Values", "Int32Value", "Int32Values", "SInt32Value", "SInt32Values", "UInt64Value", "UInt64Values", "Int64Value", "Int64Values", "SInt64Value", "SInt64Values"}
var f32Accs = []string{"Fixed32Value", "Fixed32Values", "Float32Value", "Float32Values"}
var f64Accs = []string{"Fixed64Value", "Fixed64Values", "Float64Value", "Float64Values"}
var lenAccs = []string{"StringValue", "StringValues", "BytesValue", "BytesValues"}

func allAccNames() []string {
	var out []string
	for _, a := range accessors {
		out = append(out, a.name)
	}
	return append(out, "NestedResult", "NestedResults")
}

func genQueries(t *rapid.T, infos []numInfo, n int) []Query {
	var qs []Query
	all := allAccNames()
	for i := 0; i < n; i++ {
		var path []int
		cur := infos
		// walk down nested numbers
		for d := 0; d < 3; d++ {
			var nested []numInfo
			for _, ni := range cur {
				if ni.plan == "nested" && ni.present {
					nested = append(nested, ni)
				}
			}
			if len(nested) == 0 || rapid.IntRange(0, 2).Draw(t, "descend") == 0 {
				break
			}
			ni := rapid.SampledFrom(nested).Draw(t, "via")
			path = append(path, ni.num)
			cur = ni.sub
		}
		// final tag
		var q Query
		tag := 0
		plan := ""
		if len(cur) > 0 && rapid.IntRange(0, 9).Draw(t, "known") != 0 {
			ni := rapid.SampledFrom(cur).Draw(t, "target")
			tag, plan = ni.num, ni.plan
		} else {
			tag = rapid.SampledFrom([]int{1, 2, 3, 8, 11, 12, 300, 1 << 27}).Draw(t, "othertag")
		}
		if rapid.IntRange(0, 7).Draw(t, "negq") == 0 {
			tag = -tag
		}
		q.Path = append(append([]int{}, path...), tag)
		var fam []string
		switch plan {
		case "varint", "packed-varint":
			fam = varintAccs
		case "fixed32", "packed-fixed32":
			fam = f32Accs
		case "fixed64", "packed-fixed64":
			fam = f64Accs
		case "bytes":
			fam = lenAccs
		case "nested":
			fam = []string{"NestedResult", "NestedResults", "BytesValue", "BytesValues"}
		}
		if fam != nil && rapid.IntRange(0, 3).Draw(t, "fit") != 0 {
			q.Acc = rapid.SampledFrom(fam).Draw(t, "acc")
		} else {
			q.Acc = rapid.SampledFrom(all).Draw(t, "anyacc")
		}
		q.Route = rapid.SampledFrom([]string{"fd", "fdpath", "helper", "all"}).Draw(t, "route")
		if len(q.Path) == 1 && q.Route == "all" {
			q.Route = "helper"
		}
		qs = append(qs, q)
	}
	return qs
}

func mutateBytes(t *rapid.T, b []byte) []byte {
	b = append([]byte{}, b...)
	switch rapid.IntRange(0, 4).Draw(t, "mut") {
	case 0:
		if len(b) > 0 {
			b = b[:rapid.IntRange(0, len(b)-1).Draw(t, "trunc")]
		}
	case 1:
		if len(b) > 0 {
			i := rapid.IntRange(0, len(b)-1).Draw(t, "pos")
			b[i] = rapid.SampledFrom([]byte{0x00, 0x7f, 0x80, 0xff, b[i] ^ 1, b[i] ^ 0x80, 0x0b, 0x0c}).Draw(t, "nb")
		}
	case 2:
		pos := rapid.IntRange(0, len(b)).Draw(t, "ipos")
		ins := refwire.AppendVarint(refwire.AppendKey(nil, rapid.SampledFrom(lazyNums).Draw(t, "inum"), 2), rapid.SampledFrom([]uint64{1<<31 - 1, 1 << 31, 1 << 40, 1<<64 - 1, 200}).Draw(t, "hl"))
		b = append(append(append([]byte{}, b[:pos]...), ins...), b[pos:]...)
	case 3:
		b = append(b, rapid.SliceOfN(rapid.Byte(), 1, 6).Draw(t, "tail")...)
	case 4:
		b = rapid.SliceOfN(rapid.Byte(), 0, 24).Draw(t, "random")
	}
	return b
}

func genLCase(t *rapid.T) *LCase {
	in, infos, def := genLMsg(t, 3)
	c := &LCase{In: in, Def: *def}
	c.Entry = rapid.IntRange(0, 3).Draw(t, "entry")
	if c.Entry > 2 {
		c.Entry = 1
	}
	if c.Entry >= 1 {
		c.Mode = rapid.IntRange(0, 1).Draw(t, "mode")
	}
	c.Queries = genQueries(t, infos, rapid.IntRange(1, 6).Draw(t, "nq"))
	if c.Entry == 2 {
		c.MaxBuf = rapid.SampledFrom([]int{0, 1, 1, 2, 3, 8, 1024}).Draw(t, "maxbuf")
		// the earlier message: 1..3 copies of the case's own message (same numbers and wire types, more
		// occurrences than the buffer limit) around an unrelated one
		for i, n := 0, rapid.IntRange(1, 3).Draw(t, "copies"); i < n; i++ {
			c.Warm = append(c.Warm, in...)
		}
		if rapid.Bool().Draw(t, "other") {
			other, _, _ := genLMsg(t, 1)
			c.Warm = append(c.Warm, other...)
		}
	}
	if rapid.IntRange(0, 4).Draw(t, "mutate") == 0 {
		c.In = mutateBytes(t, c.In)
	}
	if c.In == nil {
		c.In = []byte{}
	}
	return c
}

const ruleC13 = "deterministic sweeps: (a) every field number 1..130 and 2^k-1, 2^k, 2^k+1 for k = 8..29 x {flat varint, raw access through the negative tag, as a nested message's number, inside a nested message} x {Decode function, Decoder safe, Decoder fast}; (b) every accessor x 28 values at and just beyond the limits of the 32/64-bit Go types (and their zig-zag / float-bit images) x {single occurrence, two occurrences, packed run with the value in the middle / last, two runs} x {FieldData method, helper function} x {Decode function, Decoder safe, Decoder fast}; then random cases: schema-free message (0..5 distinct numbers incl. 2^26 and 2^29-1, per number a plan {varint, fixed32, fixed64, bytes incl. empty, packed varint/fixed32/fixed64, nested message incl. empty, depth <= 3}, 0..5 occurrences interleaved in random order, unrequested numbers may mix wire types) + definition (random subset of present numbers, absent numbers, nested definitions, negative tags, misfit nested declarations) + 1..6 queries (tag path, accessor out of all 26 + NestedResult(s), route FieldData/FieldData(path)/helper/NestedResults) x {safe, fast} x {Decode function, fresh Decoder, Decoder with WithMaxBufferSize {0,1,2,3,8,1024} that has already decoded, served the same queries for and closed an earlier message built from 1..3 copies of the case's message and an unrelated one}; 1 in 5 inputs mutated (truncate, overwrite, hostile length, random bytes); " +
	"oracle: refwire parse of the same bytes + accessor table (last occurrence, all occurrences with packed runs expanded, sub-message values, raw bytes for negative tags, not-found / not-defined / mismatch / overflow classes via errors.Is/As); malformed: no panic; " +
	"non-trivial = >= 2 distinct numbers on the wire and >= 1 requested number present, or malformed input; distinct by (bytes, definition, queries)"

var minI32 = func() uint64 { v := int64(math.MinInt32); return uint64(v) }()

// limitValues: raw 64-bit values at and just beyond the limits of every accessor's Go type (as varint payloads;
// truncated to 4 / 8 bytes for the fixed accessors, zig-zag images of the same limits included).
var limitValues = []uint64{0, 1, 2, 127, 128, 1<<31 - 2, 1<<31 - 1, 1 << 31, 1<<31 + 1, 1<<32 - 2, 1<<32 - 1, 1 << 32, 1<<32 + 1,
	1<<63 - 1, 1 << 63, 1<<63 + 1, ^uint64(0), ^uint64(0) - 1,
	minI32, minI32 - 1, minI32 + 1,
	0x7fc00000, 0x7f800000, 0xff800000, 0x80000000, 0x7ff8000000000000, 0x7ff0000000000000, 0x8000000000000000}

// sweepC13 enumerates accessor x limit value x occurrence shape x route x mode x entry on a one-tag definition.
func sweepC13(yield func(*LCase)) {
	for ai := range accessors {
		a := &accessors[ai]
		enc := func(v uint64) []byte { // one element of a's wire type
			switch {
			case a.isLen:
				return nil
			case a.width == 4:
				return refwire.AppendFixed32(nil, uint32(v))
			case a.width == 8:
				return refwire.AppendFixed64(nil, v)
			}
			return refwire.AppendVarint(nil, v)
		}
		for vi, v := range limitValues {
			other := limitValues[(vi+5)%len(limitValues)]
			var shapes [][]byte
			if a.isLen {
				payload := refwire.AppendFixed64(nil, v)[:vi%9]
				shapes = append(shapes,
					refwire.AppendLen(refwire.AppendKey(nil, 1, refwire.WTLen), payload),
					append(refwire.AppendLen(refwire.AppendKey(nil, 1, refwire.WTLen), []byte("earlier")), refwire.AppendLen(refwire.AppendKey(nil, 1, refwire.WTLen), payload)...))
			} else {
				one := append(refwire.AppendKey(nil, 1, a.wt), enc(v)...)
				two := append(append(refwire.AppendKey(nil, 1, a.wt), enc(other)...), one...)
				run := refwire.AppendLen(refwire.AppendKey(nil, 1, refwire.WTLen), append(append(enc(other), enc(v)...), enc(other^1)...))
				runLast := refwire.AppendLen(refwire.AppendKey(nil, 1, refwire.WTLen), append(enc(other), enc(v)...))
				shapes = append(shapes, one, two, run, runLast, append(append([]byte{}, run...), runLast...))
			}
			for _, in := range shapes {
				for _, route := range []string{"fd", "helper"} {
					for mode := 0; mode < 2; mode++ {
						for entry := 0; entry < 2; entry++ {
							if entry == 0 && mode == 1 {
								continue // the Decode function is safe mode only
							}
							yield(&LCase{In: in, Def: DefSpec{Tags: []DefTag{{Tag: 1}}}, Mode: mode, Entry: entry,
								Queries: []Query{{Path: []int{1}, Acc: a.name, Route: route}}})
						}
					}
				}
			}
		}
	}
}

// sweepTags: every field number 1..130 and the numbers around every power of two up to the largest legal one.
func sweepTags() []int {
	var out []int
	for n := 1; n <= 130; n++ {
		out = append(out, n)
	}
	for k := 8; k <= 29; k++ {
		for _, n := range []int{1<<k - 1, 1 << k, 1<<k + 1} {
			if n <= 1<<29-1 && (n < 19000 || n > 19999) {
				out = append(out, n)
			}
		}
	}
	return out
}

// sweepC13Tags enumerates field number x {flat varint, raw access through the negative tag, the number as a
// nested message's number, the number inside a nested message} x entry/mode.
func sweepC13Tags(yield func(*LCase)) {
	for _, n := range sweepTags() {
		other := 1
		if n == 1 {
			other = 2
		}
		flat := refwire.AppendVarint(refwire.AppendKey(refwire.AppendVarint(refwire.AppendKey(nil, other, 0), 5), n, 0), uint64(n)+7)
		inner := refwire.AppendVarint(refwire.AppendKey(nil, n, 0), uint64(n)+9)
		asParent := refwire.AppendLen(refwire.AppendKey(nil, n, 2), refwire.AppendVarint(refwire.AppendKey(nil, other, 0), 11))
		asChild := refwire.AppendLen(refwire.AppendKey(nil, other, 2), inner)
		cases := []LCase{
			{In: flat, Def: DefSpec{Tags: []DefTag{{Tag: n}, {Tag: other}}}, Queries: []Query{{Path: []int{n}, Acc: "UInt64Value", Route: "helper"}, {Path: []int{n}, Acc: "UInt64Values", Route: "fd"}, {Path: []int{other}, Acc: "UInt64Value", Route: "fd"}}},
			{In: flat, Def: DefSpec{Tags: []DefTag{{Tag: -n}}}, Queries: []Query{{Path: []int{-n}, Acc: "BytesValue", Route: "fd"}, {Path: []int{n}, Acc: "UInt64Value", Route: "helper"}}},
			{In: asParent, Def: DefSpec{Tags: []DefTag{{Tag: n, Nested: &DefSpec{Tags: []DefTag{{Tag: other}}}}}}, Queries: []Query{{Path: []int{n, other}, Acc: "UInt64Value", Route: "helper"}, {Path: []int{n, other}, Acc: "UInt64Value", Route: "fdpath"}, {Path: []int{n}, Acc: "NestedResults", Route: "helper"}}},
			{In: asChild, Def: DefSpec{Tags: []DefTag{{Tag: other, Nested: &DefSpec{Tags: []DefTag{{Tag: n}}}}}}, Queries: []Query{{Path: []int{other, n}, Acc: "UInt64Value", Route: "helper"}, {Path: []int{other, n}, Acc: "UInt64Values", Route: "fdpath"}}},
		}
		for i := range cases {
			for mode := 0; mode < 2; mode++ {
				for entry := 0; entry < 2; entry++ {
					if entry == 0 && mode == 1 {
						continue
					}
					c := cases[i]
					c.Mode, c.Entry = mode, entry
					yield(&c)
				}
			}
		}
	}
}

func TestC13(t *testing.T) {
	rec := ev.New("C13", ruleC13)
	defer rec.Write()
	defer func() { t.Log(rec.Summary()) }()
	shard, shards := ev.Shard()
	idx := 0
	sweepC13(func(c *LCase) {
		idx++
		if idx%shards != shard {
			return
		}
		f, wf := oracleC13(c)
		if !wf {
			panic("harness: a sweep case is not well-formed")
		}
		rec.Eval(1)
		rec.Class("sweep/" + c.Queries[0].Acc)
		cj, _ := json.Marshal(c)
		rec.NonTrivial(ev.FP(cj))
		rec.Check(t, "lcase", c, f)
	})
	sweepC13Tags(func(c *LCase) {
		idx++
		if idx%shards != shard {
			return
		}
		f, wf := oracleC13(c)
		if !wf {
			panic("harness: a sweep case is not well-formed")
		}
		rec.Eval(int64(len(c.Queries)))
		rec.Class("sweep/field-number")
		cj, _ := json.Marshal(c)
		rec.NonTrivial(ev.FP(cj))
		rec.Check(t, "lcase", c, f)
	})
	ev.Rapid(t, ev.N(60000, 3000000), 13, func(rt *rapid.T) {
		c := genLCase(rt)
		rec.Journal("lcase", c)
		f, wf := oracleC13(c)
		rec.Eval(int64(len(c.Queries)))
		classifyLCase(rec, c, wf)
		rec.Check(rt, "lcase", c, f)
	})
	rec.JournalClear()
}

func classifyLCase(rec *ev.Recorder, c *LCase, wf bool) {
	if wf {
		rec.Class("input/well-formed")
	} else {
		rec.Class("input/malformed")
	}
	rec.Class(fmt.Sprintf("entry/%d-mode/%d", c.Entry, c.Mode))
	for _, q := range c.Queries {
		rec.Class("acc/" + q.Acc)
		rec.Class("route/" + q.Route)
		if len(q.Path) > 1 {
			rec.Class("query/nested-path")
		}
		if q.Path[len(q.Path)-1] < 0 {
			rec.Class("query/negative-tag")
		}
	}
	fs, _ := refwire.Walk(c.In)
	nums := map[int]bool{}
	present := false
	for _, f := range fs {
		nums[f.Num] = true
		if d, _ := c.Def.lookup(f.Num); d {
			present = true
		}
	}
	if !wf || (len(nums) >= 2 && present) {
		cj, _ := json.Marshal(c)
		rec.NonTrivial(ev.FP(cj))
		key := "well-formed"
		if !wf {
			key = "malformed"
		}
		rec.Sample(key, map[string]any{"in_hex": fmt.Sprintf("%x", c.In), "def": c.Def, "mode": c.Mode, "entry": c.Entry, "max_buf": c.MaxBuf, "warm_len": len(c.Warm), "queries": c.Queries})
	}
}

func TestReplay(t *testing.T) {
	ev.RunReplay(t, func(rp *ev.Replay) *ev.Failure {
		switch rp.Test {
		case "lcase":
			var c LCase
			if err := json.Unmarshal(rp.Case, &c); err != nil {
				return ev.Failf(rp.Property+"/replay", "bad case: %v", err)
			}
			f, _ := oracleC13(&c)
			return f
		}
		return replayMore(rp)
	})
}
