package lazy

import (
	"testing"

	"verif/harness/internal/ev"
	"verif/harness/internal/refwire"
)

var fuzzDefs = []DefSpec{
	{Tags: []DefTag{{Tag: 1}, {Tag: 2}, {Tag: 3, Nested: &DefSpec{Tags: []DefTag{{Tag: 1}, {Tag: 2}}}}, {Tag: -3}}},
	{Tags: []DefTag{{Tag: 1, Nested: &DefSpec{Tags: []DefTag{{Tag: 1, Nested: &DefSpec{Tags: []DefTag{{Tag: 1}}}}, {Tag: 2}}}}, {Tag: 4}}},
	{Tags: []DefTag{{Tag: 2}, {Tag: 15}, {Tag: 16}, {Tag: 1 << 26}, {Tag: -1}}},
}

var fuzzQueries = func() []Query {
	var qs []Query
	for _, a := range allAccNames() {
		for _, p := range [][]int{{1}, {2}, {3}, {-3}, {4}, {3, 1}, {3, 2}, {1, 1}, {1, 1, 1}, {16}, {1 << 26}} {
			route := "fd"
			if len(p) > 1 {
				route = "all"
			}
			qs = append(qs, Query{Path: p, Acc: a, Route: route})
		}
	}
	return qs
}()

// FuzzC13: byte 0 selects definition / mode / entry point, the rest is the message; every accessor is
// queried on a fixed set of paths and compared with the reference parse.
func FuzzC13(f *testing.F) {
	nested := refwire.AppendVarint(refwire.AppendKey(nil, 1, 0), 7)
	msg := refwire.AppendLen(refwire.AppendKey(refwire.AppendVarint(refwire.AppendKey(nil, 1, 0), 5), 3, 2), nested)
	for sel := 0; sel < 12; sel++ {
		f.Add(append([]byte{byte(sel)}, msg...))
	}
	f.Add([]byte{0, 0x1a, 0x00})                                                       // empty nested message
	f.Add([]byte{0, 0x12, 0x00, 0x12, 0x01, 0x61})                                     // empty string, then "a"
	f.Add([]byte{0, 0x1a, 0xff, 0xff, 0xff, 0xff, 0xff, 0xff, 0xff, 0xff, 0xff, 0x01}) // hostile length
	f.Fuzz(func(t *testing.T, data []byte) {
		if len(data) < 1 {
			return
		}
		sel := int(data[0])
		c := &LCase{In: append([]byte{}, data[1:]...), Def: fuzzDefs[sel%len(fuzzDefs)], Mode: (sel / 3) % 2, Entry: (sel / 6) % 2, Queries: fuzzQueries}
		if c.Entry == 0 {
			c.Mode = 0
		}
		fl, _ := oracleC13(c)
		ev.FuzzCheck(t, "C13", "lcase", c, fl)
	})
}
