package lazy

import (
	"encoding/json"
	"fmt"
	"testing"

	"github.com/CrowdStrike/csproto/lazyproto"
	"pgregory.net/rapid"

	"verif/harness/internal/ev"
	"verif/harness/internal/refwire"
)

// C10, lazyproto half: in safe mode every value obtained from a lazy decode result is unaffected by what the
// caller does to the input buffer after Decode returned - whether the accessor is called before or after the
// buffer was overwritten, truncated or re-used.
//
// The oracle is metamorphic and does not involve the reference model: the same bytes are decoded twice from two
// private copies; one copy is left alone (control), the other is clobbered.  Every query must give the same
// outcome on both results, and every slice / string handed out before the clobbering must still read the same.

// ZCase is one case.
type ZCase struct {
	In      []byte  `json:"in"`
	Def     DefSpec `json:"def"`
	Entry   int     `json:"entry"`   // 0 = Decode() function, 1 = Decoder object (safe mode)
	MaxBuf  int     `json:"max_buf"` // Decoder: -1 unset
	Clobber int     `json:"clobber"` // 0 fill 0xEE, 1 zero, 2 invert, 3 shift by one byte, 4 copy Other over it, 5 truncate to half then fill
	Other   []byte  `json:"other,omitempty"`
	Early   bool    `json:"early"` // true: the queries also run once BEFORE the clobbering (hand-outs are re-read afterwards)
	Spare   int     `json:"spare"` // spare capacity behind the input
	// Recycle (Decoder entry): the result is closed and the SAME buffer is filled with a variation of the message
	// (same fields, other payload bytes) and decoded again by the same Decoder; what the first result handed out stays
	Recycle bool    `json:"recycle,omitempty"`
	Queries []Query `json:"queries"`
}

func clobber(buf []byte, kind int, other []byte) {
	switch kind {
	case 0:
		for i := range buf {
			buf[i] = 0xEE
		}
	case 1:
		for i := range buf {
			buf[i] = 0
		}
	case 2:
		for i := range buf {
			buf[i] = ^buf[i]
		}
	case 3:
		if len(buf) > 1 {
			copy(buf[1:], buf[:len(buf)-1])
			buf[0] = 0x08
		} else if len(buf) == 1 {
			buf[0] ^= 0x55
		}
	case 4:
		n := copy(buf, other)
		for i := n; i < len(buf); i++ {
			buf[i] = 0x7f
		}
	default:
		h := len(buf) / 2
		for i := h; i < len(buf); i++ {
			buf[i] = 0xff
		}
		for i := 0; i < h; i++ {
			buf[i] = buf[i]<<1 | 1
		}
	}
}

type zstats struct {
	handouts int
	repeated bool
}

func oracleC10Lazy(c *ZCase) (f *ev.Failure, st zstats) {
	stage := "decode"
	defer func() {
		if r := recover(); r != nil {
			f = ev.Failf("C10/lazy-panic/"+stage, "panic in %s: %v (input %.64x def %s)", stage, r, c.In, defString(&c.Def))
		}
	}()
	def := c.Def.build()
	decode := func(buf []byte) (*lazyproto.DecodeResult, error) {
		if c.Entry == 0 {
			v, err := lazyproto.Decode(buf, def)
			return &v, err
		}
		opts := []lazyproto.Option{lazyproto.WithMode(modeOf(0))}
		if c.MaxBuf >= 0 {
			opts = append(opts, lazyproto.WithMaxBufferSize(c.MaxBuf))
		}
		dec, err := lazyproto.NewDecoder(def, opts...)
		if err != nil {
			return nil, err
		}
		return dec.Decode(buf)
	}
	mk := func() []byte {
		b := make([]byte, len(c.In), len(c.In)+c.Spare)
		copy(b, c.In)
		return b
	}
	if c.Recycle && c.Entry == 1 {
		return oracleC10Recycle(c, def), st
	}
	control, cerr := decode(mk())
	buf := mk()
	res, err := decode(buf)
	if (cerr == nil) != (err == nil) {
		return ev.Failf("C10/lazy-nondeterministic-decode", "two decodes of the same bytes: %v / %v", cerr, err), st
	}
	if err != nil {
		return nil, st
	}
	type handout struct {
		desc string
		o    outcome
	}
	var hand []handout
	if c.Early {
		for _, q := range c.Queries {
			stage = "early/" + accFamily(q)
			for _, o := range evalReal(res, q) {
				if o.reread != nil {
					hand = append(hand, handout{fmt.Sprintf("%s%v", q.Acc, q.Path), o})
				}
			}
		}
	}
	st.handouts = len(hand)
	clobber(buf, c.Clobber, c.Other)
	if c.Clobber == 5 {
		buf = buf[:len(buf)/2]
	}
	_ = buf
	for _, h := range hand {
		if now := h.o.reread(); !now.equal(h.o) {
			return ev.Failf("C10/lazy-handed-out-value-changed/"+accFamilyName(h.desc), "safe mode (entry %d): %s was %v when handed out and reads %v after the input buffer was overwritten (clobber %d; input %.64x def %s)", c.Entry, h.desc, h.o, now, c.Clobber, c.In, defString(&c.Def)), st
		}
	}
	for _, q := range c.Queries {
		stage = "late/" + accFamily(q)
		want := evalReal(control, q)
		got := evalReal(res, q)
		if len(got) != len(want) {
			return ev.Failf("C10/lazy-value-depends-on-input-buffer/"+accFamily(q), "safe mode (entry %d): query %+v gives %v after the input buffer was overwritten, %v on an untouched copy of the same input (clobber %d; input %.64x def %s)", c.Entry, q, got, want, c.Clobber, c.In, defString(&c.Def)), st
		}
		for i := range got {
			if got[i].n != want[i].n || !got[i].equal(want[i]) || !want[i].equal(got[i]) {
				return ev.Failf("C10/lazy-value-depends-on-input-buffer/"+accFamily(q), "safe mode (entry %d): query %+v gives %v after the input buffer was overwritten, %v on an untouched copy of the same input (clobber %d; input %.64x def %s)", c.Entry, q, got, want, c.Clobber, c.In, defString(&c.Def)), st
			}
		}
	}
	// hand-outs obtained AFTER the clobbering must survive a second round too
	var late []handout
	for _, q := range c.Queries {
		for _, o := range evalReal(res, q) {
			if o.reread != nil {
				late = append(late, handout{fmt.Sprintf("%s%v", q.Acc, q.Path), o})
			}
		}
	}
	clobber(buf, (c.Clobber+1)%5, c.Other)
	for _, h := range late {
		if now := h.o.reread(); !now.equal(h.o) {
			return ev.Failf("C10/lazy-handed-out-value-changed/"+accFamilyName(h.desc), "safe mode (entry %d): %s was %v when handed out and reads %v after the input buffer was overwritten again (input %.64x def %s)", c.Entry, h.desc, h.o, now, c.In, defString(&c.Def)), st
		}
	}
	return nil, st
}

// variation: the same top-level fields with other payload bytes (fixed-width payloads and every 3rd byte of a
// length-delimited payload flipped in the lowest bit; keys, varints and lengths untouched).
func variation(in []byte) []byte {
	out := append([]byte{}, in...)
	fs, err := refwire.Walk(in)
	if err != nil {
		return out
	}
	for _, f := range fs {
		switch f.WT {
		case refwire.WTFixed32, refwire.WTFixed64:
			for i := f.ValStart; i < f.End; i++ {
				out[i] ^= 0x01
			}
		case refwire.WTLen:
			for i := f.PayloadStart; i < f.End; i += 3 {
				out[i] ^= 0x01
			}
		}
	}
	return out
}

func oracleC10Recycle(c *ZCase, def lazyproto.Def) *ev.Failure {
	opts := []lazyproto.Option{lazyproto.WithMode(modeOf(0))}
	if c.MaxBuf >= 0 {
		opts = append(opts, lazyproto.WithMaxBufferSize(c.MaxBuf))
	}
	dec, err := lazyproto.NewDecoder(def, opts...)
	if err != nil {
		return nil
	}
	buf := make([]byte, len(c.In), len(c.In)+c.Spare)
	copy(buf, c.In)
	res, err := dec.Decode(buf)
	if err != nil {
		return nil
	}
	type handout struct {
		desc string
		o    outcome
	}
	var hand []handout
	for _, q := range c.Queries {
		for _, o := range evalReal(res, q) {
			if o.reread != nil {
				hand = append(hand, handout{fmt.Sprintf("%s%v", q.Acc, q.Path), o})
			}
		}
	}
	_ = res.Close()
	for round := 0; round < 2; round++ {
		// the caller recycles its buffer for the next message and decodes it with the same Decoder
		copy(buf, variation(c.In))
		if round == 1 {
			copy(buf, c.In)
		}
		res2, err := dec.Decode(buf)
		if err == nil {
			for _, q := range c.Queries {
				_ = evalReal(res2, q)
			}
			_ = res2.Close()
		}
		for _, h := range hand {
			if now := h.o.reread(); !now.equal(h.o) {
				return ev.Failf("C10/lazy-handed-out-value-changed-by-recycled-decode/"+accFamilyName(h.desc), "safe mode: %s was %v when handed out and reads %v after the result was closed, the input buffer refilled and decoded again by the same Decoder (input %.64x def %s)", h.desc, h.o, now, c.In, defString(&c.Def))
			}
		}
	}
	return nil
}

func accFamilyName(desc string) string {
	for i, r := range desc {
		if r == '[' {
			return desc[:i]
		}
	}
	return desc
}

func genZCase(t *rapid.T) *ZCase {
	in, infos, def := genLMsg(t, 3)
	c := &ZCase{In: in, Def: *def}
	// repeat the message 1..3 times: singular scalars become repeated occurrences of one tag
	for i := rapid.IntRange(0, 2).Draw(t, "again"); i > 0; i-- {
		c.In = append(c.In, in...)
	}
	c.Entry = rapid.IntRange(0, 1).Draw(t, "entry")
	c.MaxBuf = rapid.SampledFrom([]int{-1, -1, 0, 1, 1024}).Draw(t, "maxbuf")
	c.Clobber = rapid.IntRange(0, 5).Draw(t, "clobber")
	c.Early = rapid.Bool().Draw(t, "early")
	c.Spare = rapid.SampledFrom([]int{0, 0, 1, 16}).Draw(t, "spare")
	c.Recycle = c.Entry == 1 && rapid.IntRange(0, 2).Draw(t, "recycle") == 0
	if c.Clobber == 4 {
		c.Other, _, _ = genLMsg(t, 1)
	}
	c.Queries = genQueries(t, infos, rapid.IntRange(1, 8).Draw(t, "nq"))
	// slice accessors of the same tags: all occurrences, not only the last
	for i, n := 0, len(c.Queries); i < n; i++ {
		q := c.Queries[i]
		if a := q.Acc; len(a) > 0 && a[len(a)-1] != 's' && a != "NestedResult" && rapid.Bool().Draw(t, "sliceacc") {
			q.Acc += "s"
			if accByName(q.Acc) != nil {
				c.Queries = append(c.Queries, q)
			}
		}
	}
	if c.In == nil {
		c.In = []byte{}
	}
	return c
}

const ruleC10Lazy = "lazyproto clause: schema-free well-formed message (as C13: 0..5 numbers, varint / fixed / bytes / packed / nested to depth 3, 0..5 occurrences each), repeated 1..3 times so that scalar tags occur several times, + definition + 1..8 queries (every accessor incl. slice accessors, FieldData / path / helper routes) x entry {Decode function, Decoder object in safe mode, WithMaxBufferSize {unset,0,1,1024}} x clobbering {fill 0xEE, zero, invert, shift by one byte, copy another message over it, truncate + fill} x {accessors first called before | only after the clobbering} x spare capacity {0,1,16}; 1 in 3 Decoder cases instead close the result, refill the SAME buffer with a variation of the message and decode it again with the same Decoder (twice), then re-read what the first result had handed out; " +
	"oracle (metamorphic): the same bytes decoded from an untouched private copy must answer every query identically, and every slice / string handed out before a clobbering must read the same afterwards; " +
	"non-trivial = input with >= 2 occurrences of one requested number or >= 1 handed-out slice/string; distinct by case content"

func TestC10Lazy(t *testing.T) {
	rec := ev.New("C10", ruleC10Lazy)
	defer rec.Write()
	defer func() { t.Log(rec.Summary()) }()
	ev.Rapid(t, ev.N(20000, 800000), 10, func(rt *rapid.T) {
		c := genZCase(rt)
		rec.Journal("zcase", c)
		f, st := oracleC10Lazy(c)
		rec.Eval(int64(len(c.Queries)))
		rec.Class(fmt.Sprintf("lazy/entry=%d", c.Entry))
		rec.Class(fmt.Sprintf("lazy/clobber=%d", c.Clobber))
		rec.Class(fmt.Sprintf("lazy/early=%v", c.Early))
		if c.Recycle {
			rec.Class("lazy/buffer-recycled-for-another-decode-by-the-same-decoder")
		}
		fs, _ := refwire.Walk(c.In)
		cnt := map[int]int{}
		rep := false
		for _, fl := range fs {
			cnt[fl.Num]++
			if d, _ := c.Def.lookup(fl.Num); d && cnt[fl.Num] >= 2 {
				rep = true
			}
		}
		if rep {
			rec.Class("lazy/requested-number-occurs-repeatedly")
		}
		if st.handouts > 0 {
			rec.Class("lazy/has-hand-outs")
		}
		if rep || st.handouts > 0 {
			cj, _ := json.Marshal(c)
			rec.NonTrivial(ev.FP(cj))
			rec.Sample(fmt.Sprintf("lazy-entry=%d", c.Entry), map[string]any{"in_hex": fmt.Sprintf("%.80x", c.In), "def": c.Def, "entry": c.Entry, "clobber": c.Clobber, "early": c.Early, "queries": c.Queries})
		}
		rec.Check(rt, "zcase", c, f)
	})
	rec.JournalClear()
}
