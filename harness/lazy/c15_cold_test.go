package lazy

import (
	"bytes"
	"fmt"
	"os"
	"os/exec"
	"strings"
	"testing"

	"pgregory.net/rapid"

	"verif/harness/internal/ev"
)

// Cold-start rounds of C15: the first lazyproto calls a process ever makes - Decode, every accessor (fitting and
// misfitting, single and slice), NestedResult(s), Close - are made by goroutines sharing one Decoder, so that state
// which is initialised lazily on first use (package-level caches, pools) is initialised under contention.  One
// fresh process per round: the -race test binary re-executes itself.

const envC15Child = "VERIF_C15_CHILD"

// genCCaseCold: like genCCase, but every goroutine asks every accessor of every top-level field (and of the fields
// of the first nested schema), right from its first iteration.
func genCCaseCold(t *rapid.T) *CCase {
	s := genSchema(t, 2)
	c := &CCase{Def: *s.def()}
	c.Mode = rapid.IntRange(0, 1).Draw(t, "mode")
	c.MaxBuf = rapid.SampledFrom([]int{-1, 0, 2, 1024}).Draw(t, "maxbuf")
	c.Filter = rapid.SampledFrom([]int{0, 0, 1, 3}).Draw(t, "filter")
	c.Procs = 16
	c.Iterations = 3
	var qs []Query
	routes := []string{"fd", "helper", "fdpath"}
	var walk func(cur *LSchema, path []int, depth int)
	walk = func(cur *LSchema, path []int, depth int) {
		for fi, f := range cur.Fields {
			for ai, a := range allAccNames() {
				qs = append(qs, Query{Path: append(append([]int{}, path...), f.Num), Acc: a, Route: routes[(fi+ai)%len(routes)]})
			}
			if f.Sub != nil {
				qs = append(qs, Query{Path: append(append([]int{}, path...), f.Num), Acc: "NestedResults", Route: "helper"})
				if depth < 1 {
					walk(f.Sub, append(append([]int{}, path...), f.Num), depth+1)
				}
			}
		}
	}
	walk(s, nil, 0)
	for w := 0; w < 8; w++ {
		wk := CCWorker{Yield: rapid.Uint32().Draw(t, "yield")}
		for i := 0; i < 2; i++ {
			wk.Inputs = append(wk.Inputs, genInstance(t, s, 4))
		}
		// every goroutine starts at another accessor
		k := (w * 7) % len(qs)
		wk.Queries = append(append([]Query{}, qs[k:]...), qs[:k]...)
		c.Workers = append(c.Workers, wk)
	}
	return c
}

func c15ColdChild(t *testing.T, spec string) {
	var k int
	fmt.Sscanf(spec, "cold:%d", &k)
	c := rapid.Custom(genCCaseCold).Example(k + 1)
	if f, _ := oracleC15(c); f != nil {
		fmt.Printf("C15-CHILD-FAIL %s: %.600s\n", f.Sig, strings.ReplaceAll(f.Detail, "\n", " "))
		t.Fail()
		return
	}
	fmt.Println("C15-CHILD-OK")
}

func c15ColdRoundOnce(k int) *ev.Failure {
	cmd := exec.Command(os.Args[0], "-test.run", "^TestC15$", "-test.count=1")
	cmd.Env = append(os.Environ(), fmt.Sprintf("%s=cold:%d", envC15Child, k), "VERIF_EVIDENCE_PART=", "VERIF_REPLAY=")
	out, err := cmd.CombinedOutput()
	if i := bytes.Index(out, []byte("WARNING: DATA RACE")); i >= 0 {
		return ev.Failf("C15/data-race/first-concurrent-use", "race detector report while the first lazyproto calls of the process ran concurrently on one shared Decoder (round %d):\n%.1800s", k, out[i:])
	}
	if bytes.Contains(out, []byte("C15-CHILD-FAIL")) {
		for _, ln := range strings.Split(string(out), "\n") {
			if strings.Contains(ln, "C15-CHILD-FAIL") {
				return ev.Failf("C15/first-concurrent-use-differs", "%s", ln)
			}
		}
	}
	if err != nil || !bytes.Contains(out, []byte("C15-CHILD-OK")) {
		panic(fmt.Sprintf("harness: re-executed child neither passed nor reported a failure: %v\n%.1200s", err, out))
	}
	return nil
}

func c15ColdRounds(t *testing.T, rec *ev.Recorder) {
	shard, shards := ev.Shard()
	total := 8
	if ev.Thorough() {
		total = 120
	}
	for k := 0; k < total; k++ {
		if k%shards != shard {
			continue
		}
		f := c15ColdRoundOnce(k)
		rec.Eval(8 * 3)
		rec.NonTrivialEnum(8)
		rec.Class("cold-start-round")
		rec.Sample("cold-start", map[string]any{"k": k, "goroutines": 8, "accessors_per_field": len(allAccNames())})
		rec.Check(t, "ccold", map[string]any{"k": k}, f)
	}
}
