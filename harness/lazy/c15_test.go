package lazy

import (
	"encoding/json"
	"fmt"
	"os"
	"runtime"
	"sync"
	"sync/atomic"
	"testing"

	"github.com/CrowdStrike/csproto/lazyproto"
	"pgregory.net/rapid"

	"verif/harness/internal/ev"
)

// CCase is one concurrent round: one shared Decoder, G goroutines with their own inputs/queries.
type CCase struct {
	Mode       int        `json:"mode"`
	MaxBuf     int        `json:"max_buf"`
	Filter     int        `json:"filter,omitempty"` // 0 none, 1 halving, 2 constant 2, 3 identity
	Def        DefSpec    `json:"def"`
	Procs      int        `json:"gomaxprocs"`
	Iterations int        `json:"iterations"`
	Workers    []CCWorker `json:"workers"`
}

// CCWorker: inputs of one goroutine, the queries it runs on each, and where it yields.
type CCWorker struct {
	Inputs  [][]byte `json:"inputs"`
	Queries []Query  `json:"queries"`
	Yield   uint32   `json:"yield"` // bit i set: runtime.Gosched() at injection point i
}

type cstats struct {
	iterations  int64
	overlapped  int64
	maxInFlight int64
}

func oracleC15(c *CCase) (*ev.Failure, cstats) {
	var st cstats
	opts := []lazyproto.Option{lazyproto.WithMode(modeOf(c.Mode))}
	if c.MaxBuf >= 0 {
		opts = append(opts, lazyproto.WithMaxBufferSize(c.MaxBuf))
	}
	switch c.Filter { // (pure functions: safe to call from any goroutine)
	case 1:
		opts = append(opts, lazyproto.WithBufferFilterFunc(func(n int) int { return n / 2 }))
	case 2:
		opts = append(opts, lazyproto.WithBufferFilterFunc(func(n int) int { return 2 }))
	case 3:
		opts = append(opts, lazyproto.WithBufferFilterFunc(func(n int) int { return n }))
	}
	dec, err := lazyproto.NewDecoder(c.Def.build(), opts...)
	if err != nil {
		return ev.Failf("C15/newdecoder-error", "NewDecoder: %v", err), st
	}
	// expectations are computed up front, single-threaded, from the reference parse
	type exp struct{ want [][]outcome }
	exps := make([][]exp, len(c.Workers))
	for w, wk := range c.Workers {
		exps[w] = make([]exp, len(wk.Inputs))
		for i, in := range wk.Inputs {
			lc := &LCase{In: in, Def: c.Def}
			for _, q := range wk.Queries {
				exps[w][i].want = append(exps[w][i].want, evalModel(lc, q))
			}
		}
	}
	old := runtime.GOMAXPROCS(c.Procs)
	defer runtime.GOMAXPROCS(old)
	var (
		wg       sync.WaitGroup
		start    = make(chan struct{})
		inFlight int64
		failMu   sync.Mutex
		fail     *ev.Failure
	)
	setFail := func(f *ev.Failure) {
		failMu.Lock()
		if fail == nil {
			fail = f
		}
		failMu.Unlock()
	}
	for w := range c.Workers {
		w := w
		wk := c.Workers[w]
		wg.Add(1)
		go func() {
			defer wg.Done()
			defer func() {
				if r := recover(); r != nil {
					setFail(ev.Failf("C15/panic", "goroutine %d panicked: %v", w, r))
				}
			}()
			yield := func(p int) {
				if wk.Yield&(1<<uint(p%32)) != 0 {
					runtime.Gosched()
				}
			}
			<-start
			for it := 0; it < c.Iterations; it++ {
				i := it % len(wk.Inputs)
				n := atomic.AddInt64(&inFlight, 1)
				overl := n >= 2
				yield(0)
				res, err := dec.Decode(wk.Inputs[i])
				if err != nil {
					atomic.AddInt64(&inFlight, -1)
					setFail(ev.Failf("C15/decode-error", "goroutine %d: Decode of its well-formed input #%d failed: %v", w, i, err))
					return
				}
				yield(1)
				if wk.Yield&(1<<13) != 0 {
					// a first-level nested result that handed out second-level results is closed explicitly (documented
					// to have no effect) before the top-level Close
					for _, dt := range c.Def.Tags {
						if dt.Nested != nil && dt.Tag > 0 {
							if nr, nerr := res.NestedResult(dt.Tag); nerr == nil && nr != nil {
								touchSecondLevel(nr, &c.Def, dt.Tag)
								_ = nr.Close()
							}
						}
					}
				}
				for qi, q := range wk.Queries {
					got := evalReal(res, q)
					want := exps[w][i].want[qi]
					if atomic.LoadInt64(&inFlight) >= 2 {
						overl = true
					}
					if len(wk.Inputs[i]) == 0 && len(got) == 1 && len(want) == 1 && got[0].errc == eNotDefined && want[0].errc == eNotFound {
						continue
					}
					if !sameOutcomes(got, want) {
						atomic.AddInt64(&inFlight, -1)
						setFail(ev.Failf("C15/foreign-or-wrong-value/"+accFamily(q), "goroutine %d, iteration %d, query %+v on its input #%d (%x): got %v, its own input gives %v", w, it, q, i, wk.Inputs[i], got, want))
						return
					}
					yield(2 + qi)
				}
				yield(10)
				_ = res.Close()
				if overl {
					atomic.AddInt64(&st.overlapped, 1)
				}
				atomic.AddInt64(&st.iterations, 1)
				for {
					m := atomic.LoadInt64(&st.maxInFlight)
					if n <= m || atomic.CompareAndSwapInt64(&st.maxInFlight, m, n) {
						break
					}
				}
				atomic.AddInt64(&inFlight, -1)
				yield(11)
			}
		}()
	}
	close(start) // barrier release
	wg.Wait()
	return fail, st
}

func genCCase(t *rapid.T) *CCase {
	s := genSchema(t, 2)
	c := &CCase{Def: *s.def()}
	c.Mode = rapid.IntRange(0, 1).Draw(t, "mode")
	c.MaxBuf = rapid.SampledFrom([]int{-1, -1, 0, 2, 1024}).Draw(t, "maxbuf")
	c.Filter = rapid.SampledFrom([]int{0, 0, 1, 2, 3}).Draw(t, "filter")
	c.Procs = rapid.SampledFrom([]int{1, 2, 16}).Draw(t, "procs")
	g := rapid.SampledFrom([]int{2, 4, 8, 16, 64}).Draw(t, "goroutines")
	c.Iterations = rapid.SampledFrom([]int{5, 20, 50}).Draw(t, "iterations")
	if ev.Thorough() {
		c.Iterations *= 4
	}
	for w := 0; w < g; w++ {
		wk := CCWorker{Yield: rapid.Uint32().Draw(t, "yield")}
		for i := rapid.IntRange(1, 3).Draw(t, "ninputs"); i > 0; i-- {
			wk.Inputs = append(wk.Inputs, genInstance(t, s, 4))
		}
		for i := rapid.IntRange(1, 4).Draw(t, "nq"); i > 0; i-- {
			wk.Queries = append(wk.Queries, genSchemaQuery(t, s))
		}
		c.Workers = append(c.Workers, wk)
	}
	return c
}

const ruleC15 = "round = one shared lazyproto.Decoder (definition with nested parts, safe or fast mode, optional max buffer size, optional buffer filter {halving, constant 2, identity}) + G in {2,4,8,16,64} goroutines released by a barrier, each looping Decode -> run its queries (incl. NestedResult(s) paths) -> compare with the reference parse of ITS OWN input (expectations computed beforehand) -> Close (half of the goroutines first close, explicitly, every first-level nested result after it handed out second-level results), with rapid-chosen runtime.Gosched() injection points, GOMAXPROCS in {1,2,16}; the binary is built with -race and halts on the first race report; cold-start rounds: 8 (thorough 120) fresh processes in which the FIRST lazyproto calls of the process - Decode, every accessor of every field (fitting and misfitting, single and slice), NestedResults, Close - are made by 8 goroutines sharing one Decoder; " +
	"non-trivial = an iteration during which >= 2 goroutines were between Decode and Close at once (atomic in-flight counter); such iterations are distinct by construction (round, goroutine, iteration)"

func TestC15(t *testing.T) {
	if v := os.Getenv(envC15Child); v != "" {
		c15ColdChild(t, v)
		return
	}
	rec := ev.New("C15", ruleC15)
	defer rec.Write()
	defer func() { t.Log(rec.Summary()) }()
	rec.Assume("interleavings are sampled, not enumerated; the race detector reports an unsynchronised conflicting access pair whenever both accesses execute in a run")
	rec.Extra("race_detector", raceEnabled)
	round := 0
	ev.Rapid(t, ev.N(160, 6000), 15, func(rt *rapid.T) {
		c := genCCase(rt)
		round++
		rec.Journal("ccase", c)
		f, st := oracleC15(c)
		rec.Eval(st.iterations)
		rec.NonTrivialEnum(st.overlapped)
		rec.Class(fmt.Sprintf("gomaxprocs=%d", c.Procs))
		rec.Class(fmt.Sprintf("goroutines=%d", len(c.Workers)))
		rec.Class(fmt.Sprintf("mode=%d", c.Mode))
		rec.ClassN("iterations-overlapping", st.overlapped)
		rec.ClassN("iterations", st.iterations)
		if st.overlapped > 0 {
			rec.Sample(fmt.Sprintf("procs=%d", c.Procs), map[string]any{"gomaxprocs": c.Procs, "goroutines": len(c.Workers), "iterations_each": c.Iterations, "mode": c.Mode, "max_buf": c.MaxBuf, "filter": c.Filter,
				"def": c.Def, "overlapping_iterations": st.overlapped, "max_in_flight": st.maxInFlight, "worker0": c.Workers[0]})
		}
		rec.Check(rt, "ccase", c, f)
	})
	rec.JournalClear()
	c15ColdRounds(t, rec)
}

func replayCCase(raw json.RawMessage) *ev.Failure {
	var c CCase
	if err := json.Unmarshal(raw, &c); err != nil {
		return ev.Failf("C15/replay", "bad case: %v", err)
	}
	// schedules are sampled: run the round several times
	for i := 0; i < 20; i++ {
		if f, _ := oracleC15(&c); f != nil {
			return f
		}
	}
	return nil
}
