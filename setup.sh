#!/bin/sh
# Offline setup: build every engine's test binary once so that the first check is warm.
set -e
cd "$(dirname "$0")"
export GOFLAGS=-mod=mod GOPROXY=off GOSUMDB=off GOTOOLCHAIN=local
mkdir -p .work evidence
cd harness
go build ./...
go vet ./internal/... >/dev/null 2>&1 || true
go test -c -vet=off -o /dev/null ./wire/
cd .. && ./check C20 build && ./check C13 build && ./check C15 build && ./check C04 build
echo setup ok
