#!/usr/bin/env python3
"""Validate MANIFEST.json and evidence/*.json against the task schemas (needs the tooling venv: python3-vt)."""
import json, glob, sys, jsonschema
ok = True
jsonschema.validate(json.load(open('/verif/MANIFEST.json')), json.load(open('/root/.vp/MANIFEST.schema.json')))
sch = json.load(open('/root/.vp/EVIDENCE.schema.json'))
for f in sorted(glob.glob('/verif/evidence/*.json')):
    try:
        jsonschema.validate(json.load(open(f)), sch)
    except Exception as e:
        ok = False
        print("INVALID", f, str(e)[:300])
m = json.load(open('/verif/MANIFEST.json'))
claimed = {c['property_id'] for c in m['checks']}
na = {c['property_id'] for c in m.get('not_applicable', [])}
allp = {json.loads(l)['id'] for l in open('/verif/properties.jsonl')}
print("claimed", len(claimed), "not_applicable", len(na), "unlisted", sorted(allp - claimed - na))
print("valid" if ok else "INVALID")
sys.exit(0 if ok else 1)
