#!/usr/bin/env python3
"""Regenerates MANIFEST.json from the table below (kept in one place so that it stays valid)."""
import json, os

HERE = os.path.dirname(os.path.abspath(__file__))

# id -> (engine, level text, level note, technique)
CHECKS = {
    "C01": ("wire",
            "generated-input search: deterministic boundary sweep + rapid-random cases (+ exhaustive enumeration of every 32-bit value domain and of every field number x wire type in the thorough tier) through encode -> size ledger -> decode round trip on exactly-sized sentinel-backed buffers, safe and fast mode",
            "absence is not established for the 64-bit, string and list domains (sampled, boundary-biased); trusted base: refwire + protowire as size references, Go bounds checks for overrun detection",
            "property-based testing (rapid) + exhaustive enumeration; round-trip oracle with size ledger"),
    "C02": ("wire",
            "generated-input differential test: csproto's bytes vs protowire vs a spec-derived reference codec, both directions (the references' bytes decode through csproto to the reference value), plus DecodeTag+Skip walks over generated well-formed field sequences in both modes",
            "the two independently written references must agree with each other on every case before either is used as oracle; 64-bit domains are sampled",
            "property-based differential testing (rapid) against protowire and a spec-derived reference codec"),
    "C03": ("wire",
            "exhaustive enumeration of all short byte strings over a wire-significant alphabet x every decoder method x every offset x mode, plus rapid-generated programs of decoder calls (incl. Seek/Reset/SetMode) over mutated encodings with hostile length prefixes; per-call oracle: no panic, cursor in bounds, success => reference item length and value, oversize declared length => error, allocation bound",
            "long inputs and long programs are sampled; allocation is metered with runtime/metrics and confirmed by an exact MemStats bracket before it is reported; a process killed by the runtime is replayed from a crash journal",
            "exhaustive small-scope enumeration + stateful property-based testing (rapid) against a reference item model; native fuzzing in the thorough tier"),
    "C19": ("wire",
            "rapid-generated nested-message cases over the five flavours (MarshalTo, Marshal-only, plain gogo, plain Google v1, plain Google v2 incl. well-known types and typed nil) plus a Marshal-only wrapper around a Google v2 message and a message whose child lacks required fields) x positions x failing stubs x inflated lengths (also at the top of the int64 / uint64 range); byte-exact oracle prefix|key|len|csproto.Marshal(m)|suffix on an exactly-sized buffer, decode-side cursor/equality/error-propagation oracle",
            "plain gogo is represented by gogo's descriptor.DescriptorProto (registered with gogo, XXX_ methods, no Marshal); Google v1 by a hand-written pre-APIv2 style struct with XXX_ methods",
            "property-based testing (rapid), byte-exact reference construction with refwire"),
    "C04": ("gencode",
            "the working-tree protoc-gen-fastmarshal regenerates code for a schema corpus (feature matrix + seeded random schemas) x {gv2, gogo, Google-v1 legacy, golang-protoc-gen-go} x generator options; generated values (systematic boundary sweep + rapid-random trees) are built on fresh structs through reflection; oracle: Size()==len(Marshal()), MarshalTo fills an exactly-sized sentinel-backed buffer with the same bytes, no panic",
            "no protoc in the sandbox: descriptors are built programmatically and fed to the plug-ins by a protoc replacement (fidelity: byte-identical regeneration of the repository's examples was probed); shapes listed in known_findings.jsonl are steered away from by construction and counted",
            "property-based testing (rapid) + systematic boundary sweep over regenerated code"),
    "C05": ("gencode",
            "same case stream as C04 (own run): the bytes of the generated Marshal are parsed by dynamicpb from the schema alone and must equal the original incl. presence and unknown bytes; additionally, at every nesting level the set of field numbers on the wire must equal the set of populated fields (no phantom defaults, nothing dropped); for Google-runtime types with a well-known-type child the value is marshaled once more after that child was sized by its runtime and grown in place",
            "the dynamic reference never consults generated methods (gogo's and golang's own Marshal would delegate to them); byte equality with the reference encoder is not required",
            "property-based differential testing (rapid) against descriptor-driven dynamicpb"),
    "C06": ("gencode",
            "each generated value is re-encoded by a schema-aware encoder whose free choices (field order, packed/unpacked/split runs, duplicated singular scalars, split messages, map entry shapes, interleaved unknown fields) are drawn from rapid, the destination is pre-populated with unrelated content, and the generated Unmarshal must succeed and equal the reference decode of the same bytes",
            "only encodings a conforming writer for the same schema may emit (minimal varints, sign-extended negatives, valid UTF-8, declared enum values for closed enums, no groups)",
            "metamorphic / differential property-based testing (rapid) against dynamicpb"),
    "C07": ("gencode",
            "generated values are encoded with 1..6 well-formed unknown fields inserted at random positions of every nesting level; Unmarshal -> Size -> Marshal; the reference decode of input and output must carry byte-identical unknown fields at every level and equal known parts",
            "unknown numbers avoid declared extension numbers (those are known fields); four supported wire types only",
            "round-trip property-based testing (rapid) with reference-extracted unknown bytes"),
    "C08": ("gencode",
            "mutation operators (truncate / overwrite every byte / inflate length prefixes / rewire key types / append garbage / hostile lengths / random bytes) applied systematically to sweep encodings and randomly to generated encodings of every type; oracle: Unmarshal returns without panic, allocation bounded by 4 KiB + len*(576+2*S), and when the reference accepts the input too the messages are equal",
            "csproto rejecting what the reference tolerates is not a violation; allocation is metered with runtime/metrics and confirmed by an exact MemStats bracket; a killed process is replayed from its crash journal",
            "mutation-based property testing (rapid) with a both-accept differential oracle; native fuzzing in the thorough tier"),
    "C09": ("gencode",
            "rapid-generated programs (<= 25 ops: field set/clear/grow/shrink through reflection stores incl. fields of existing children, Size, Marshal, MarshalTo, csproto.Size/Marshal, the runtime's own Size/Marshal on the message or directly on a well-known-type child, Unmarshal, Reset, Clone with the program continuing on the copy or on the original) on one live message, plus histories through csproto on a plain gogo message generated with gogo's sizer but not its marshaler plug-in; after every Marshal* the bytes must equal Marshal of a fresh message built from the model; plus a -race binary with 2..32 goroutines calling Size/Marshal/MarshalTo on one unmutated message",
            "up to map-entry order when a map has >= 2 entries; mutation during a concurrent Marshal is outside the property; schedules are sampled",
            "model-based stateful property testing (rapid) + race-detector stress"),
    "C10": ("gencode",
            "for every type generated without enableunsafedecode: decode a generated encoding rich in strings/bytes/maps/nested/unknown data, snapshot through reflection, overwrite the input buffer and re-use it for another decode, and require the first message to be unchanged; lazyproto clause (second group, lazy engine): a schema-free message is decoded in safe mode through both entry points, the caller's buffer is overwritten in one of six ways before or after the accessors were first called, and every accessor must answer as on an untouched copy of the same bytes while slices/strings handed out earlier stay unchanged (C14 additionally re-reads hand-outs after pooled results were recycled)",
            "types generated with enableunsafedecode and lazyproto in fast mode are documented exceptions and not asserted either way",
            "metamorphic property-based testing (rapid)"),
    "C16": ("gencode",
            "every (schema file, runtime variant, option combination) of the corpus is run through the working-tree plug-in twice in separate processes (different cwd, TZ, HOME, > 1 s apart); oracle: no error, byte-identical responses, file names emitted once and equal to the documented pattern, go/parser accepts every file, go build succeeds per package together with the message types of the matching runtime",
            "supported feature set = proto2/proto3 without groups, MessageSet, weak fields, editions; proto3 optional only on generators that declare support; the three message-type generators are fixtures built from the module cache",
            "generated-schema testing: feature matrix + seeded random schemas, run-twice differential + compile oracle"),
    "C17": ("gencode",
            "for every proto2 type with required fields of its own or in children reached through a field / required field / list / map / oneof, EVERY subset of those required fields left unset is enumerated (plus the empty message and the empty input); oracle = reference verdict (proto.CheckInitialized / strict Unmarshal) in both directions",
            "exhaustive per type up to 2^8 subsets; the base value populates every path to a required field",
            "exhaustive small-scope enumeration with a reference oracle"),
    "C11": ("gencode",
            "rapid-generated values of plain (no fast-marshal methods) and fast-marshal types of gogo / Google v1 (legacy) / Google v2 and of the Google and gogo well-known types, checked differentially against the OWNING runtime called directly (Marshal/Unmarshal in both directions incl. pre-populated destinations, Size, Clone, Equal incl. cross-runtime pairs, Reset, MarshalText, GrpcCodec, MsgType); unsupported values x every entry point exhaustively; first-use classification races in a -race binary that re-executes itself (fresh cache) with 8..64 goroutines at GOMAXPROCS 1/2/16",
            "prototext output is only compared within one process; gogo's Equal is not NaN-aware and distinguishes nil from empty bytes, so content equality falls back to the reflective copies; schedules are sampled",
            "property-based differential testing (rapid) against the owning runtimes + exhaustive unsupported-value matrix + race-detector re-exec rounds"),
    "C12": ("gencode",
            "rapid-generated programs (<= 30 ops: Set/Get/Has/Clear/ClearAll/Range/Marshal/ExtensionFieldNumber and accesses with another runtime's descriptor) over proto2 messages with extensions of every kind on plain types of the three runtimes; model map + twin message driven through the owning runtime's own extension API; invariants after every step; plus fresh child processes in which each type's first csproto call is made with a typed nil pointer (10 entry points, rotated) before a fixed extension program runs under the same oracle",
            "GetExtension on an unset extension differs between runtimes (default vs error): the oracle is the owning runtime's answer; Google V1 and V2 share one descriptor Go type, so a 'foreign' descriptor is a gogo one for Google messages and vice versa",
            "model-based stateful property testing (rapid) with a twin driven through the owning runtime"),
    "C18": ("gencode",
            "rapid-generated values (JSON-representable: finite floats, declared enum values, in-range Timestamp/Duration) x the 2^3 marshal option combinations x indent strings x unknown-key / missing-required probes on the three runtimes, each adapter call with its own options or with all five options in a drawn order; oracle: json.Valid, adapter round trip, the owning runtime's own JSON decoder accepts and decodes the original, structural probes per option, nil in / nil out",
            "protojson whitespace is unstable: parsed JSON and per-line prefixes are compared, never bytes; equality with the owning runtime's marshaler output is not required (gogo messages are routed through golang's jsonpb by design of json.go)",
            "property-based round-trip + differential testing (rapid) with structural option probes"),
    "C13": ("lazy",
            "rapid-generated schema-free messages (all wire types, repeated, packed, nested incl. empty, numbers up to 2^29-1) x random definitions (present/absent/nested/negative tags) x queries over all 26 typed accessors + NestedResult(s) through four access routes x {safe, fast} x {Decode function, Decoder}; oracle = reference wire parse of the same bytes + accessor table incl. error classes; mutated inputs: no panic",
            "each requested number uses one wire type (documented precondition); error classes are compared with errors.Is/As, never by text; for a tag declared flat but not nested either not-defined error is accepted",
            "property-based differential testing (rapid) against a reference parser + accessor model"),
    "C14": ("lazy",
            "rapid-generated programs (<= 40 ops: Decode, accessor queries incl. nested paths, Range, Close) over one pooled Decoder and a pool of inputs of differing shapes, under every option combination; model: each live handle must answer from its own input only; in safe mode every slice/string handed out is re-read after every later step, after Close and after a final re-decode of every input",
            "sync.Pool is made deterministic for replay by running the check at GOMAXPROCS=1 with the GC run only between cases; misuse (use after Close, double Close) is not generated",
            "model-based stateful property testing (rapid), programs generated as data"),
    "C15": ("lazy",
            "rapid-generated concurrent rounds: one shared Decoder, 2..64 goroutines released by a barrier, each looping Decode/read/compare-with-own-expectation/Close with generated yield points, GOMAXPROCS in {1,2,16}, binary built with -race (halt on first report); a round that races or returns foreign values is replayed from its journal in a fresh process; plus cold-start rounds in fresh child processes in which the first lazyproto calls of the process (Decode, every accessor of every field, NestedResults, Close) are made by 8 goroutines sharing one Decoder",
            "the Go scheduler is not owned by the harness: interleavings are sampled; what is claimed is 'no race on the executed paths + correct values in every sampled schedule'",
            "randomised concurrent stress generated by rapid + Go race detector + per-goroutine reference oracle"),
    "C20": ("tools",
            "rapid-generated annotated-hex texts (random case, whitespace incl. inside a byte, comments with ';' and hex digits, corrupted variants) against the inverse of the renderer; rapid-generated valid and mutated wire sequences x random expand/strings path sets through dumpProto (working-tree source compiled into the harness) and the built binary (-file, stdin pipe, stdin file), read by a tolerant reader and compared with a refwire walk",
            "a line break inside a byte and path element 0 are outside the documented contract and not generated; field number 0 with a non-zero key is treated as ambiguous; string payloads rendered with -strings contain no line breaks",
            "property-based testing (rapid): inverse-function oracle for the hex parser, reference-walk differential for protodump"),
}

NOT_YET = "check under construction in this session (designed in DESIGN.md section 4; not registered until it runs clean)"

ENGINES = {
    "wire": ("harness/wire", "rapid property tests, exhaustive enumerations and fuzz targets for the hand-written encoder/decoder against refwire/protowire"),
    "tools": ("harness/tools", "rapid property tests for prototest.ParseAnnotatedHex and cmd/protodump (in-package via go test -overlay, and as a subprocess)"),
    "lazy": ("harness/lazy", "rapid property tests, stateful programs and race-detector stress for lazyproto against a refwire accessor model"),
    "gencode": ("harness/gencode", "regenerates code with the working-tree protoc-gen-fastmarshal for a schema corpus x runtimes x options and checks it against dynamicpb"),
    "shim": ("harness/shim", "differential tests of the runtime-agnostic API (Marshal/Unmarshal/Size/Clone/Equal/Reset/MarshalText/JSON/extensions) against the owning runtimes"),
}


def main():
    props = [json.loads(l) for l in open(os.path.join(HERE, "properties.jsonl"))]
    checks = []
    for p in props:
        pid = p["id"]
        if pid not in CHECKS:
            continue
        eng, text, note, tech = CHECKS[pid]
        checks.append({
            "property_id": pid,
            "quick_cmd": "./check %s quick" % pid,
            "thorough_cmd": "./check %s thorough" % pid,
            "evidence_file": "evidence/%s.json" % pid,
            "replay_cmd_template": "./check %s --replay {path}" % pid,
            "engine": eng,
            "level_claimed": {"category": "exploration", "text": text, "design_ref": "DESIGN.md section 4, " + pid},
            "level_note": note,
            "technique": tech,
        })
    used = sorted({c["engine"] for c in checks})
    m = {
        "version": 1,
        "setup_cmd": "cd /verif && ./setup.sh",
        "hooks": {
            "guard": "verif",
            "enable": "no hooks exist: the harness module replaces github.com/CrowdStrike/csproto with /repo (or $VERIF_REPO) and every check rebuilds from that working tree; package-internal access to cmd/protodump uses go test -overlay with files that live in /verif",
            "baseline_off_cmd": "cd /repo && go test -mod=mod -json -vet=off -count=1 -timeout 25m ./...",
            "source_commits": [],
            "add_only": True,
        },
        "engines": [{"name": e, "path": ENGINES[e][0], "serves_properties": [c["property_id"] for c in checks if c["engine"] == e], "kind_free_text": ENGINES[e][1]} for e in used],
        "checks": checks,
        "not_applicable": [{"property_id": p["id"], "reason": NOT_YET} for p in props if p["id"] not in CHECKS],
        "notes": "All checks are property-based tests / fuzzers (pgregory.net/rapid, exhaustive small-scope enumeration, go test -fuzz) with explicit oracles; see DESIGN.md. Genuine defects found on the pinned tree were repaired with fix: commits in /repo or are listed in known_findings.jsonl.",
    }
    json.dump(m, open(os.path.join(HERE, "MANIFEST.json"), "w"), indent=1)
    print("MANIFEST.json: %d checks, %d not claimed" % (len(checks), len(m["not_applicable"])))


if __name__ == "__main__":
    main()
