#!/bin/bash
# run_parallel.sh <logfile> : the complete sensitivity self-test (every mutant + every seeded change) in two
# workers that own disjoint sets of properties: one for the properties of the wire / tools / lazy engines, one for
# the generated-code engine (its generated corpus directory is shared, so those items run one after the other).
# Writes one combined log in the format of run.py.
export GOFLAGS=-mod=mod GOPROXY=off GOSUMDB=off GOTOOLCHAIN=local
cd "$(dirname "$0")/.."
log=${1:-/tmp/selftest-full.log}
python3 selftest/run.py C01 C02 C03 C13 C14 C15 C19 C20 > $log.A 2>&1 &
python3 selftest/run.py C04 C05 C06 C07 C08 C09 C10 C11 C12 C16 C17 C18 > $log.B 2>&1 &
wait
grep -h "CAUGHT\|MISSED\|PATCH-FAILED" $log.A $log.B | sort > $log
caught=$(grep -c CAUGHT $log); total=$(grep -c . $log)
echo "" >> $log
echo "$total mutants, $caught caught, $((total-caught)) not caught" >> $log
tail -1 $log
