#!/usr/bin/env python3
"""Groups SURVEY lines (VERIF_SURVEY=1 runs) by failure kind/file/message across variants."""
import re,collections,sys
for fn in sys.argv[1:]:
    rows=[l.rstrip('\n') for l in open(fn,errors='replace') if l.startswith('SURVEY')]
    g=collections.defaultdict(list)
    for r in rows:
        m=re.match(r'SURVEY\s+(\d+) (C\d+)/([^/]+)/([^/]+)/([^/]+)/(\S+) :: (.*)',r)
        if not m: print("??",r[:200]); continue
        n,prop,kind,var,file,msg,detail=m.groups()
        g[(prop,kind,file,msg)].append((var,int(n),detail))
    print("=====",fn,len(rows),"signatures,",len(g),"groups")
    for k in sorted(g):
        vs=g[k]
        print(" ".join(k[1:]), " ".join("%s:%d"%(v,n) for v,n,_ in vs))
        print("      ", vs[0][2][:230])
