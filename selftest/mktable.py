#!/usr/bin/env python3
"""mktable.py <run logs...> > selftest/RESULTS.md : markdown table of the last self-test results."""
import re, sys
rows = {}
for fn in sys.argv[1:]:
    for ln in open(fn, errors="replace"):
        m = re.match(r"^(C\d+)\s+(\S+)\s+(CAUGHT|MISSED|PATCH-FAILED)\s+(.*)$", ln)
        if m:
            rows[(m.group(1), m.group(2))] = (m.group(3), m.group(4).strip())
print("# Sensitivity self-test results\n")
print("One line per deliberately broken version of csproto: `selftest/run.py` applied the patch to a scratch copy of /repo, ran the property's quick check against it and expects exit 1.\n")
print("| property | change | verdict | caught by (signature) |\n|---|---|---|---|")
for (p, n), (v, d) in sorted(rows.items()):
    sig = re.search(r"signature: (\S+)", d)
    print("| %s | %s | %s | %s |" % (p, n, v, ("`%s`" % sig.group(1)) if sig else d[:80]))
c = sum(1 for v, _ in rows.values() if v == "CAUGHT")
print("\n%d changes, %d caught." % (len(rows), c))
