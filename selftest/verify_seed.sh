#!/bin/bash
# verify_seed.sh <ID> <seed-worktree> <patch> : confirm an externally written seeded change in a fresh scratch worktree:
# (1) demo passes without the patch, (2) pinned suite passes with the patch, (3) demo fails with the patch.
export GOFLAGS=-mod=mod GOPROXY=off GOSUMDB=off GOTOOLCHAIN=local
id=$1; src=$2; patch=$3
wt=/tmp/vs-$id
rm -rf $wt; git -C /repo worktree add -q --detach $wt HEAD || exit 2
demos=$(git -C $src status --short | grep '^??' | awk '{print $2}')
run_demo() { for d in $demos; do dir=$(dirname $d); (cd $wt && go test -mod=mod -vet=off -count=1 ${RACE} ./$dir/ 2>&1 | tail -3); done; }
for d in $demos; do mkdir -p $wt/$(dirname $d); cp $src/$d $wt/$d; done
echo "--- demo files: $demos"
echo "--- (1) demo WITHOUT the change (expect ok)"; r1=$(run_demo); echo "$r1" | tail -3
(cd $wt && git apply $patch) || { echo "PATCH DOES NOT APPLY"; git -C /repo worktree remove --force $wt; exit 2; }
mkdir -p /tmp/vs-aside-$id; for d in $demos; do mv $wt/$d /tmp/vs-aside-$id/$(echo $d | tr / _); done
echo "--- (2) pinned suite WITH the change (expect ok)"; (cd $wt && go build ./... && go test -mod=mod -vet=off -count=1 ./... 2>&1 | tail -6)
for d in $demos; do mv /tmp/vs-aside-$id/$(echo $d | tr / _) $wt/$d; done
echo "--- (3) demo WITH the change (expect FAIL)"; r3=$(run_demo); echo "$r3" | tail -3
rm -rf /tmp/vs-aside-$id
git -C /repo worktree remove --force $wt
