#!/usr/bin/env python3
"""pickreplay.py <property> <signature-regex> <name>: copy a replay written by a survey run whose signature matches."""
import sys,re,glob,json,shutil,os
prop,rx,name=sys.argv[1:4]
for f in sorted(glob.glob('/verif/.work/replays/%s-*.json'%prop)):
    try: r=json.load(open(f))
    except Exception: continue
    if re.fullmatch(rx,r.get('signature','')):
        dst='/verif/replays/known/%s.json'%name
        shutil.copyfile(f,dst); print(dst, r['signature'], len(open(f).read())); sys.exit(0)
print("no replay matches",rx); sys.exit(1)
