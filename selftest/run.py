#!/usr/bin/env python3
"""Sensitivity self-test (development tool, not a registered check).

usage: selftest/run.py [--tests] [--tier quick] [PROP[/NAME] ...]

For every selftest/mutants/<PROP>/<name>.diff (and seeded/<id>/patch.diff with meta.json naming the
property): copy /repo's working tree to a scratch directory outside /repo and /verif, apply the
patch, optionally run the pinned test suite there (--tests), run ./check <PROP> quick with
VERIF_REPO pointing at the copy and expect exit 1.  The copy is removed afterwards.
"""
import glob, json, os, shutil, subprocess, sys, tempfile, time

VERIF = os.path.dirname(os.path.dirname(os.path.abspath(__file__)))


def sh(cmd, **kw):
    return subprocess.run(cmd, shell=True, stdout=subprocess.PIPE, stderr=subprocess.STDOUT, text=True, **kw)


def main():
    args = [a for a in sys.argv[1:] if not a.startswith("--")]
    run_tests = "--tests" in sys.argv
    tier = "quick"
    items = []
    for d in sorted(glob.glob(os.path.join(VERIF, "selftest", "mutants", "*", "*.diff"))):
        prop = os.path.basename(os.path.dirname(d))
        items.append((prop, os.path.basename(d)[:-5], d, [prop]))
    for meta in sorted(glob.glob(os.path.join(VERIF, "seeded", "*", "meta.json"))):
        m = json.load(open(meta))
        d = os.path.join(os.path.dirname(meta), "patch.diff")
        props = m.get("checks") or [m["property"]]
        items.append((m["property"], "seeded-" + os.path.basename(os.path.dirname(meta)), d, props))
    if args:
        items = [it for it in items if any(a == it[0] or a == it[0] + "/" + it[1] or a == it[1] for a in args)]
    results = []
    # scratch copies live at fresh paths, so every item adds a few hundred MB of build-cache entries that are never
    # used again: keep them in a cache of their own and drop it regularly
    stcache = "/tmp/verif-st-gocache-%d" % os.getpid()
    os.environ["GOCACHE"] = stcache
    for idx, (prop, name, diff, props) in enumerate(items):
        if idx % 12 == 11:
            shutil.rmtree(stcache, ignore_errors=True)
        scratch = tempfile.mkdtemp(prefix="verif-st-", dir="/tmp")
        try:
            sh("rsync -a --exclude .git /repo/ %s/" % scratch)
            p = sh("patch -p1 --no-backup-if-mismatch < %s" % diff, cwd=scratch)
            if p.returncode != 0:
                results.append((prop, name, "PATCH-FAILED", p.stdout[-300:]))
                continue
            note = ""
            if run_tests:
                t = sh("go test -mod=mod -vet=off -count=1 ./... 2>&1 | tail -8", cwd=scratch, env=dict(os.environ, GOFLAGS="-mod=mod", GOPROXY="off"))
                note = "suite:" + ("FAIL" if ("FAIL" in t.stdout or "cannot" in t.stdout) else "pass")
            verdicts = []
            for pr in props:
                t0 = time.time()
                env = dict(os.environ, VERIF_REPO=scratch, VERIF_SELFTEST="1")
                c = sh("./check %s %s" % (pr, tier), cwd=VERIF, env=env)
                sig = [l.strip() for l in c.stdout.splitlines() if "signature:" in l or l.startswith("INFRA")]
                verdicts.append("%s:rc=%d(%.0fs)%s" % (pr, c.returncode, time.time() - t0, (" " + sig[0][:100]) if sig else ""))
                caught = c.returncode == 1
            ok = any(":rc=1" in v for v in verdicts)
            results.append((prop, name, "CAUGHT" if ok else "MISSED", " ".join(verdicts) + " " + note))
        finally:
            shutil.rmtree(scratch, ignore_errors=True)
            tag = __import__("hashlib").sha1(os.path.realpath(scratch).encode()).hexdigest()[:8]
            shutil.rmtree(os.path.join(VERIF, ".work", "bin", tag), ignore_errors=True)
            shutil.rmtree(os.path.join(VERIF, ".work", "gen", tag), ignore_errors=True)
        print("%-5s %-40s %-8s %s" % results[-1], flush=True)
    shutil.rmtree(stcache, ignore_errors=True)
    missed = [r for r in results if r[2] != "CAUGHT"]
    print("\n%d mutants, %d caught, %d not caught" % (len(results), len(results) - len(missed), len(missed)))
    return 1 if missed else 0


if __name__ == "__main__":
    sys.exit(main())
